----------------------------- MODULE Concurrent -----------------------------
(* Two requests A and B in flight at once from one requestor to one responder.  Each DAG is  *)
(* its own root block linking to leaf blocks in order; leaves may be shared between the two  *)
(* (C20).  The roots are exchanged before the part modelled here.  What couples the two:     *)
(*   - the responder's per-peer link tracker (responseassembler/peerlinktracker.go): a block *)
(*     is attached only if no request IN PROGRESS in the same de-duplication bucket has      *)
(*     traversed it (do-not-send-cids count as traversed); a request's entries go away when  *)
(*     it finishes; a dedup key (set automatically for a request that uses its own store)    *)
(*     selects a separate bucket;                                                            *)
(*   - one message queue: metadata of both requests and a shared set of blocks per message;  *)
(*     the requestor gives every present item the block the SAME message carries for its     *)
(*     link, whichever request it was attached for (reconciledloader IngestResponse);        *)
(*   - the requestor's stores: an item without block is loaded from the request's store.     *)
(* Dev = {} is the design (a request's blocks do not depend on other requests in flight).    *)
EXTENDS Naturals, Sequences, FiniteSets, TLC
CONSTANTS L,        \* labels 1..L
          MaxLen,   \* up to MaxLen leaves per request
          Dev
R == {"A", "B"}
VARIABLES seq,      \* r -> the leaves of r's DAG in traversal order (the case)
          key,      \* r -> "" (default store / bucket) or "k" (own store, own bucket)
          ign,      \* r -> labels announced as do-not-send (held in r's store)
          rpos,     \* r -> links the responder has traversed
          refs,     \* link tracker: set of <<bucket, request, label>>
          out,      \* message being built: sequence of [r, c, blk]; c = 0 is r's terminal status
          sending,  \* message handed to the network, not yet delivered (<<>> = sender idle)
          rq,       \* r -> items [c, blk] queued at the requestor
          pend,     \* r -> label whose write r is waiting to commit (0 = none)
          store,    \* bucket -> labels in the requestor's store
          delivered, errs, ended
caseVars == <<seq, key, ign>>
vars == <<seq, key, ign, rpos, refs, out, sending, rq, pend, store, delivered, errs, ended>>
Range(s) == { s[i] : i \in 1..Len(s) }
Chains == UNION { { s \in [1..n -> 1..L] : \A i, j \in 1..n : i # j => s[i] # s[j] } : n \in 1..MaxLen }
Init == /\ seq \in [R -> Chains] /\ Range(seq["A"]) \cap Range(seq["B"]) # {}
        /\ key \in [R -> {"", "k"}] /\ key["B"] = ""
        /\ ign \in [R -> SUBSET (1..L)] /\ ign["B"] = {} /\ ign["A"] \subseteq Range(seq["A"])
        /\ rpos = [r \in R |-> 0]
        /\ refs = { <<key[r], r, c>> : r \in R, c \in 1..L } \cap { t \in {"", "k"} \X R \X (1..L) : t[3] \in ign[t[2]] /\ t[1] = key[t[2]] }
        /\ out = <<>> /\ sending = <<>> /\ rq = [r \in R |-> <<>>] /\ pend = [r \in R |-> 0]
        /\ store = [b \in {"", "k"} |-> UNION { ign[r] : r \in { q \in R : key[q] = b } }]
        /\ delivered = [r \in R |-> <<>>] /\ errs = [r \in R |-> {}] /\ ended = [r \in R |-> FALSE]

\* ---- responder: request r traverses its next link (gate: the outgoing block hook of r)
RespStep(r) ==
  /\ rpos[r] < Len(seq[r])
  /\ LET c == seq[r][rpos[r] + 1]
         tracked == \E t \in refs : t[1] = key[r] /\ t[3] = c                     \* someone in progress in r's bucket (or r's own do-not-send list) has it
         blk == IF "CrossRequestDedup" \in Dev THEN ~tracked ELSE c \notin ign[r]   \* design: only what r itself said it holds is left out
         last == rpos[r] + 1 = Len(seq[r])
     IN /\ rpos' = [rpos EXCEPT ![r] = @ + 1]
        /\ out' = IF last THEN out \o <<[r |-> r, c |-> c, blk |-> blk], [r |-> r, c |-> 0, blk |-> FALSE]>> ELSE Append(out, [r |-> r, c |-> c, blk |-> blk])
        /\ refs' = IF last THEN { t \in refs : t[2] # r } ELSE refs \cup {<<key[r], r, c>>}      \* the finished request's entries are dropped
  /\ UNCHANGED <<caseVars, sending, rq, pend, store, delivered, errs, ended>>
\* the idle sender takes what has been built
Take == /\ sending = <<>> /\ out # <<>> /\ sending' = out /\ out' = <<>>
        /\ UNCHANGED <<caseVars, rpos, refs, rq, pend, store, delivered, errs, ended>>
\* the message reaches the requestor (gate: the network): every present item gets the block the message carries for its link
Deliver ==
  /\ sending # <<>>
  /\ LET blocks == { sending[i].c : i \in { j \in 1..Len(sending) : sending[j].blk } }
         itemsOf(r) == LET idx == { i \in 1..Len(sending) : sending[i].r = r }
                           RECURSIVE F(_) F(S) == IF S = {} THEN <<>> ELSE LET m == CHOOSE x \in S : \A y \in S : x <= y IN
                                                     <<[c |-> sending[m].c, blk |-> sending[m].c \in blocks]>> \o F(S \ {m})
                       IN F(idx)
     IN rq' = [r \in R |-> IF ended[r] THEN rq[r] ELSE rq[r] \o itemsOf(r)]
  /\ sending' = <<>>
  /\ UNCHANGED <<caseVars, rpos, refs, out, pend, store, delivered, errs, ended>>
\* ---- requestor: r's executor consumes its next item
ReqRun(r) ==
  /\ ~ended[r] /\ pend[r] = 0 /\ rq[r] # <<>>
  /\ LET it == Head(rq[r]) IN
     /\ rq' = [rq EXCEPT ![r] = Tail(@)]
     /\ IF it.c = 0 THEN ended' = [ended EXCEPT ![r] = TRUE] /\ UNCHANGED <<pend, delivered, errs>>
        ELSE IF it.blk THEN pend' = [pend EXCEPT ![r] = it.c] /\ UNCHANGED <<delivered, errs, ended>>           \* write opened, commit gated
        ELSE IF it.c \in store[key[r]] THEN delivered' = [delivered EXCEPT ![r] = Append(@, it.c)] /\ UNCHANGED <<pend, errs, ended>>
        ELSE errs' = [errs EXCEPT ![r] = @ \cup {it.c}] /\ UNCHANGED <<pend, delivered, ended>>   \* missing-block error; the traversal goes on with the next leaf
  /\ UNCHANGED <<caseVars, rpos, refs, out, sending, store>>
\* the store commits label c (gate: the committer); every request waiting for that write goes on
Commit(c) ==
  /\ \E r \in R : pend[r] = c
  /\ LET W == { r \in R : pend[r] = c } IN
     /\ store' = [b \in {"", "k"} |-> IF \E r \in W : key[r] = b THEN store[b] \cup {c} ELSE store[b]]
     /\ delivered' = [r \in R |-> IF r \in W THEN Append(delivered[r], c) ELSE delivered[r]]
     /\ pend' = [r \in R |-> IF r \in W THEN 0 ELSE pend[r]]
  /\ UNCHANGED <<caseVars, rpos, refs, out, sending, rq, errs, ended>>
Auto == Take \/ \E r \in R : ReqRun(r)
Next == Auto \/ Deliver \/ (\E r \in R : RespStep(r)) \/ \E c \in 1..L : Commit(c)
Spec == Init /\ [][Next]_vars
-----------------------------------------------------------------------------
Finished == \A r \in R : ended[r]
\* C20: each request delivers and stores what it would alone: every leaf (the responder holds everything), no error
AsAlone == Finished => \A r \in R : delivered[r] = seq[r] /\ errs[r] = {} /\ Range(seq[r]) \subseteq store[key[r]]
NoStuck == (~Finished) => ENABLED Next
=============================================================================
