CONSTANTS L = 2 MaxLen = 2 Dev = {}
SPECIFICATION Spec
INVARIANTS AsAlone NoStuck
CHECK_DEADLOCK FALSE
