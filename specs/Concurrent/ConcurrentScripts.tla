-------------------------- MODULE ConcurrentScripts --------------------------
(* Environment scripts for two concurrent requests: which request's responder traversal goes *)
(* on (release of its outgoing block hook), when the message on the network is delivered,    *)
(* and when the requestor's store commits a block -- each at a point where nothing else      *)
(* moves.  Emitted with the outcome the model (with its Dev) reaches.                         *)
EXTENDS Concurrent, Json
VARIABLE hist
SInit == Init /\ hist = <<>>
Stable == ~ENABLED Auto
Ev(e, r, c) == [ev |-> e, r |-> r, c |-> c]
SNext == \/ Auto /\ hist' = hist
         \/ /\ Stable
            /\ \/ \E r \in R : RespStep(r) /\ hist' = Append(hist, Ev("resp", r, seq[r][rpos[r] + 1]))
               \/ Deliver /\ hist' = Append(hist, Ev("deliver", "-", 0))
               \/ \E c \in 1..L : Commit(c) /\ hist' = Append(hist, Ev("commit", "-", c))
Emit == (Stable /\ Finished /\ sending = <<>> /\ \A r \in R : rpos[r] = Len(seq[r])) =>
   PrintT(ToJson([seqA |-> seq["A"], seqB |-> seq["B"], keyA |-> key["A"], ignA |-> ign["A"], script |-> hist,
                  final |-> [dA |-> delivered["A"], dB |-> delivered["B"], eA |-> errs["A"], eB |-> errs["B"]]]))
=============================================================================
