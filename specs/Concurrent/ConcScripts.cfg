CONSTANTS L = 2 MaxLen = 2 Dev = {"CrossRequestDedup"}
INIT SInit
NEXT SNext
INVARIANT Emit
CHECK_DEADLOCK FALSE
