-------------------------- MODULE ConcurrentOracle --------------------------
(* Judges real executions of ConcurrentScripts scripts (vh conc-run): C20 asks that each     *)
(* request delivers and stores what it would alone (here: every leaf, no error).  A run that *)
(* falls short is compared with what the model of the code as found (Dev =                   *)
(* {"CrossRequestDedup"}) reaches for the same script.                                       *)
EXTENDS Naturals, Sequences, FiniteSets, TLC, Json, IOUtils
Cases == ndJsonDeserialize(IOEnv.VERIF_CASES)
VARIABLE n
ToSet(s) == { s[i] : i \in 1..Len(s) }
AsAlone(c) == LET o == c.obs IN
   /\ o.dA = c.case.seqA /\ o.dB = c.case.seqB /\ o.eA = <<>> /\ o.eB = <<>> /\ o.otherErrs = <<>> /\ ~o.hang
   /\ ToSet(c.case.seqA) \subseteq ToSet(o.storeA) /\ ToSet(c.case.seqB) \subseteq ToSet(o.storeB)
Conforms(c) == LET o == c.obs f == c.case.final IN
   o.dA = f.dA /\ o.dB = f.dB /\ ToSet(o.eA) = ToSet(f.eA) /\ ToSet(o.eB) = ToSet(f.eB) /\ o.otherErrs = <<>> /\ ~o.hang
Problems(c) == IF AsAlone(c) THEN {}
               ELSE IF Conforms(c) THEN {"DEV_CrossRequestDedupTiming"}
               ELSE IF c.obs.hang THEN {"request-never-ended"}
               ELSE IF c.obs.otherErrs # <<>> THEN {"request-failed"}
               ELSE {"result-differs-from-running-alone"}
Init == n = 0
Next == n < Len(Cases) /\ n' = n + 1
SetToSeq(S) == LET RECURSIVE F(_) F(T) == IF T = {} THEN <<>> ELSE LET x == CHOOSE y \in T : TRUE IN <<x>> \o F(T \ {x}) IN F(S)
Judge == n > 0 => LET c == Cases[n] IN
   PrintT(ToJson([id |-> c.case.id, c20 |-> SetToSeq(Problems(c)), conforms |-> Conforms(c), desync |-> c.obs.desync]))
=============================================================================
