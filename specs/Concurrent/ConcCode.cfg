CONSTANTS L = 3 MaxLen = 3 Dev = {"CrossRequestDedup"}
SPECIFICATION Spec
INVARIANTS AsAlone NoStuck
CHECK_DEADLOCK FALSE
