CONSTANTS L = 2 MaxLen = 2 Dev = {"CrossRequestDedup"}
SPECIFICATION Spec
INVARIANTS AsAlone NoStuck
CHECK_DEADLOCK FALSE
