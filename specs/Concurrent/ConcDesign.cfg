CONSTANTS L = 3 MaxLen = 3 Dev = {}
SPECIFICATION Spec
INVARIANTS AsAlone NoStuck
CHECK_DEADLOCK FALSE
