CONSTANTS K = 2 Dev = {} MaxEnv = 2
INIT SInit
NEXT SNext
INVARIANT EmitScript
CHECK_DEADLOCK FALSE
