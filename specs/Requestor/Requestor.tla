------------------------------ MODULE Requestor ------------------------------
(* Life cycle of one outgoing request in the request manager (requestmanager/server.go,    *)
(* client.go, executor/executor.go, responsecollector.go).  The manager is an actor: one   *)
(* mailbox message = one atomic handler (rendezvous reduction, DESIGN 3.7).  Other threads: *)
(* the task-queue worker running the executor, the two collector goroutines, the caller,   *)
(* and the network (the responder B and a third peer C).                                   *)
(* Properties: C04 (channels terminate with the right outcome), C09 (third peers are       *)
(* inert), requestor half of C23 (state agrees with the task queue when quiescent).        *)
EXTENDS Naturals, Sequences, FiniteSets, TLC
CONSTANTS K,        \* blocks the traversal needs from the responder
          Dev,      \* named deviations of the code: "HooksBeforeFilter", "PausedReleaseIgnoresCancel"
          MaxEnv    \* bound on environment events (responder/third-peer messages, API calls)

VARIABLES
  st,        \* request record in the manager: "none","queued","running","paused","gone"
  termErr,   \* first terminal error: "none","client","failed","hook"
  ictx,      \* the request's internal context is cancelled
  latch,     \* pause latch (one-slot channel)
  task,      \* task queue entry of the request: "none","pending","active"
  ex,        \* executor pc: "idle","get","load","hook","report","release"
  exErr,     \* error the executor is returning: "nil","paused","ctx","fatal"
  k,         \* blocks loaded so far; K+1+n encodes: n blocks loaded, then a block was missing (in a chain the rest is skipped)
  reqSent, online, avail,    \* loader: request sent this run, remote open, remote items queued
  inErr,     \* the manager/executor is blocked sending this error on the internal error channel ("none" = nobody)
  inErrBy,   \* who is blocked: "none","actor","exec"
  closedIn,  \* internal channels closed (by terminate)
  pcol, ecol,   \* collectors: "run","drain","done" / "run","done"
  cctx,      \* caller context cancelled
  outErrs,   \* errors delivered to the caller (sequence)
  outClosed, \* <<progress closed, errors closed>>
  wire,      \* messages sent on behalf of the request: sequence of <<to, type>>
  hookCalls, \* ghost: peers whose responses reached the response hooks
  waiters,   \* CancelRequest calls waiting for termination
  status,    \* last status received from B: "none","partial","paused","full","failed"
  nenv,
  gotTerminal, \* ghost: a terminal status from B was handled, or the caller cancelled
  cancelLive  \* ghost: the caller cancelled its context while the request was still live

vars == <<st, termErr, ictx, latch, task, ex, exErr, k, reqSent, online, avail, inErr, inErrBy, closedIn,
          pcol, ecol, cctx, outErrs, outClosed, wire, hookCalls, waiters, status, nenv, gotTerminal, cancelLive>>

\* ex = "blocked": the only worker is busy with another request
\* st = "setup": the manager is still handling the new-request message (validation, outgoing request hooks)
Init == /\ st \in {"queued", "setup"} /\ termErr = "none" /\ ictx = FALSE /\ latch = FALSE /\ task = (IF st = "setup" THEN "none" ELSE "pending")
        /\ ex \in {"idle", "blocked"} /\ exErr = "nil" /\ k = 0 /\ reqSent = FALSE /\ online = FALSE /\ avail = 0
        /\ inErr = "none" /\ inErrBy = "none" /\ closedIn = FALSE /\ pcol = "run" /\ ecol = "run" /\ cctx = FALSE
        /\ outErrs = <<>> /\ outClosed = <<FALSE, FALSE>> /\ wire = <<>> /\ hookCalls = {} /\ waiters = 0
        /\ status = "none" /\ nenv = 0 /\ gotTerminal = FALSE /\ cancelLive = FALSE

\* the responder B serves the request between receiving it and sending its terminal status / being told to cancel
ToB == { i \in 1..Len(wire) : wire[i][1] = "B" /\ wire[i][2] \in {"new", "cancel"} }
bServing == ToB # {} /\ wire[CHOOSE m \in ToB : \A j \in ToB : j <= m][2] = "new" /\ status \notin {"full", "failed"}
ActorFree == inErrBy # "actor" /\ st # "setup"      \* the actor is not blocked inside terminateRequest
Live == st \in {"queued", "running", "paused"}

\* ---- terminateRequest, first half: deliver the terminal error (blocking rendezvous), or go straight on
Terminate(stv, te) ==
  IF te # "none" THEN /\ inErr' = te /\ inErrBy' = "actor" /\ st' = stv /\ termErr' = te
                       /\ UNCHANGED <<closedIn, ictx>>
  ELSE /\ st' = "gone" /\ closedIn' = TRUE /\ ictx' = TRUE /\ termErr' = te /\ UNCHANGED <<inErr, inErrBy>>
\* second half, after someone received the error
TerminateRest == /\ inErrBy = "actor" /\ inErr = "none"
                 /\ inErrBy' = "none" /\ st' = "gone" /\ closedIn' = TRUE /\ ictx' = TRUE
                 /\ UNCHANGED <<termErr, latch, task, ex, exErr, k, reqSent, online, avail, inErr, pcol, ecol, cctx, outErrs,
                                outClosed, wire, hookCalls, waiters, status, nenv, gotTerminal>>

\* cancelOnError
CancelOnError(e) ==
  LET te == IF termErr = "none" THEN e ELSE termErr IN
  IF st # "running" THEN Terminate(st, te) /\ UNCHANGED online
  ELSE /\ termErr' = te /\ ictx' = TRUE /\ online' = FALSE /\ UNCHANGED <<st, inErr, inErrBy, closedIn>>

\* ---- mailbox handlers (each atomic) --------------------------------------------------------
\* worker popped the task and asks for it
GetTask == /\ ActorFree /\ ex = "get"
           /\ IF ~Live THEN /\ task' = "none" /\ ex' = "idle" /\ UNCHANGED st
              ELSE /\ st' = "running" /\ ex' = "load" /\ UNCHANGED task
           /\ reqSent' = FALSE /\ exErr' = "nil"
           /\ UNCHANGED <<termErr, ictx, latch, k, online, avail, inErr, inErrBy, closedIn, pcol, ecol, cctx, outErrs, outClosed,
                          wire, hookCalls, waiters, status, nenv, gotTerminal>>

Release == /\ ActorFree /\ ex = "release"
           /\ task' = "none" /\ ex' = "idle"
           /\ IF ~Live THEN UNCHANGED <<st, termErr, inErr, inErrBy, closedIn, ictx>>
              ELSE IF exErr = "paused" /\ ("PausedReleaseIgnoresCancel" \in Dev \/ ~ictx)
                   THEN st' = "paused" /\ UNCHANGED <<termErr, inErr, inErrBy, closedIn, ictx>>
              ELSE Terminate(st, termErr)
           /\ UNCHANGED <<latch, exErr, k, reqSent, online, avail, pcol, ecol, cctx, outErrs, outClosed, wire, hookCalls,
                          waiters, status, nenv, gotTerminal>>

\* cancel message: from the progress collector's drain (no terminal error) or from the cancel API (client error, waiter)
CancelMsg(api) ==
  /\ ActorFree
  /\ IF ~Live THEN UNCHANGED <<st, termErr, ictx, online, inErr, inErrBy, closedIn, wire, waiters>>
     ELSE /\ wire' = Append(wire, <<"B", "cancel">>)
          /\ waiters' = IF api THEN waiters + 1 ELSE waiters
          /\ CancelOnError(IF api THEN "client" ELSE "none")
  /\ UNCHANGED <<latch, task, ex, exErr, k, reqSent, avail, ecol, cctx, outErrs, outClosed, hookCalls, status>>

\* a response message for this request id from peer `from` with status s; hook reaction hr
Responses(from, s, hr) ==
  /\ ActorFree /\ nenv < MaxEnv /\ nenv' = nenv + 1
  /\ LET fromPeer == from = "B"
         hooksRun == IF "HooksBeforeFilter" \in Dev THEN TRUE ELSE (fromPeer /\ Live)
         dropped  == hooksRun /\ hr = "error"
         accepted == fromPeer /\ Live /\ ~dropped
     IN /\ hookCalls' = IF hooksRun THEN hookCalls \cup {from} ELSE hookCalls
        /\ LET w1 == IF hooksRun /\ hr = "update" THEN Append(wire, <<from, "update">>) ELSE wire
               w2 == IF dropped /\ Live THEN Append(w1, <<"B", "cancel">>) ELSE w1
           IN wire' = w2
        /\ IF dropped /\ Live THEN CancelOnError("hook") /\ UNCHANGED <<avail, status, gotTerminal>>
           ELSE IF accepted THEN
                /\ status' = s
                /\ avail' = IF online /\ s \in {"partial", "full"} /\ avail + k < K THEN avail + 1 ELSE avail
                /\ IF s = "failed" THEN CancelOnError("failed")
                   ELSE IF s = "full" THEN online' = FALSE /\ UNCHANGED <<st, termErr, ictx, inErr, inErrBy, closedIn>>
                   ELSE UNCHANGED <<st, termErr, ictx, online, inErr, inErrBy, closedIn>>
                /\ gotTerminal' = (gotTerminal \/ s \in {"full", "failed"})
           ELSE UNCHANGED <<st, termErr, ictx, online, inErr, inErrBy, closedIn, avail, status, gotTerminal>>
  /\ UNCHANGED <<latch, task, ex, exErr, k, reqSent, pcol, ecol, cctx, outErrs, outClosed, waiters>>

PauseApi == /\ ActorFree /\ nenv < MaxEnv /\ nenv' = nenv + 1
            /\ latch' = (IF Live /\ st # "paused" THEN TRUE ELSE latch)
            /\ UNCHANGED <<st, termErr, ictx, task, ex, exErr, k, reqSent, online, avail, inErr, inErrBy, closedIn, pcol, ecol, cctx,
                           outErrs, outClosed, wire, hookCalls, waiters, status, gotTerminal>>
\* (a caller that has cancelled does not come back to unpause)
UnpauseApi == /\ ActorFree /\ st = "paused" /\ ~cctx /\ waiters = 0
              /\ st' = "queued" /\ task' = "pending"
              /\ UNCHANGED <<termErr, ictx, latch, ex, exErr, k, reqSent, online, avail, inErr, inErrBy, closedIn, pcol, ecol, cctx,
                             outErrs, outClosed, wire, hookCalls, waiters, status, nenv, gotTerminal>>

\* the task of a terminated request is taken off the queue (design); the code leaves it there until a worker pops it
RemoveTask == /\ st = "gone" /\ task = "pending" /\ "CancelQueuedLeavesTask" \notin Dev /\ task' = "none"
              /\ UNCHANGED <<st, termErr, ictx, latch, ex, exErr, k, reqSent, online, avail, inErr, inErrBy, closedIn, pcol, ecol, cctx, outErrs,
                             outClosed, wire, hookCalls, waiters, status, nenv, gotTerminal>>
\* the other request finishes and frees the worker
FreeWorker == /\ ex = "blocked" /\ ex' = "idle"
              /\ UNCHANGED <<st, termErr, ictx, latch, task, exErr, k, reqSent, online, avail, inErr, inErrBy, closedIn, pcol, ecol, cctx, outErrs,
                             outClosed, wire, hookCalls, waiters, status, nenv, gotTerminal>>

\* the new-request handler finishes: the request is recorded and queued, NewRequest returns the channels to the caller
SetupDone == /\ st = "setup" /\ st' = "queued" /\ task' = "pending"
             /\ UNCHANGED <<termErr, ictx, latch, ex, exErr, k, reqSent, online, avail, inErr, inErrBy, closedIn, pcol, ecol, cctx, outErrs,
                            outClosed, wire, hookCalls, waiters, status, nenv, gotTerminal>>

\* ---- executor (task-queue worker) ---------------------------------------------------------
Pop == /\ ex = "idle" /\ task = "pending" /\ task' = "active" /\ ex' = "get"
       /\ UNCHANGED <<st, termErr, ictx, latch, exErr, k, reqSent, online, avail, inErr, inErrBy, closedIn, pcol, ecol, cctx, outErrs,
                      outClosed, wire, hookCalls, waiters, status, nenv, gotTerminal>>

\* one load of the traversal loop (every block must come from the responder)
Load ==
  /\ ex = "load"
  /\ (k >= K \/ reqSent \/ (ictx /\ "OnlineAfterCancel" \notin Dev)) => (status' = status /\ gotTerminal' = gotTerminal)
  /\ IF k >= K THEN ex' = "release" /\ exErr' = "nil" /\ UNCHANGED <<k, reqSent, online, avail, wire>>     \* traversal complete
     ELSE IF ~reqSent /\ ictx /\ "OnlineAfterCancel" \notin Dev THEN                                     \* design: a cancelled request never goes online
          /\ ex' = "finish" /\ exErr' = "ctx" /\ UNCHANGED <<k, reqSent, online, avail, wire>>
     ELSE IF ~reqSent THEN                                                                               \* first miss: go online
          /\ reqSent' = TRUE /\ online' = TRUE /\ wire' = Append(wire, <<"B", "new">>)
          /\ UNCHANGED <<ex, exErr, k, avail>> /\ status' = "none" /\ gotTerminal' = FALSE
     ELSE IF avail > 0 THEN /\ avail' = avail - 1 /\ k' = k + 1 /\ ex' = "hook"                           \* remote block, delivered
                            /\ UNCHANGED <<exErr, reqSent, online, wire>>
     ELSE IF ~online THEN /\ ex' = "report" /\ exErr' = "missing" /\ UNCHANGED <<k, reqSent, online, avail, wire>>   \* offline: local miss
     ELSE FALSE                                                                                          \* waitRemote blocks
  /\ UNCHANGED <<st, termErr, ictx, latch, task, inErr, inErrBy, closedIn, pcol, ecol, cctx, outErrs, outClosed, hookCalls,
                 waiters, nenv>>

\* advanceTraversal on a missing block: report on the internal error channel unless the request context is done
Report ==
  /\ ex = "report"
  /\ IF ictx THEN ex' = "finish" /\ exErr' = "ctx" /\ UNCHANGED <<inErr, inErrBy, k>>
     ELSE IF inErrBy = "none" /\ ~closedIn THEN inErr' = "missing" /\ inErrBy' = "exec" /\ ex' = "reported" /\ UNCHANGED <<exErr, k>>
     ELSE FALSE
  /\ UNCHANGED <<st, termErr, ictx, latch, task, reqSent, online, avail, closedIn, pcol, ecol, cctx, outErrs, outClosed, wire,
                 hookCalls, waiters, status, nenv, gotTerminal>>
Reported == /\ ex = "reported" /\ ((inErrBy = "exec" /\ inErr = "none") \/ ictx)
            /\ ex' = "latch" /\ k' = K + 1 + k /\ exErr' = "nil"
            /\ inErrBy' = (IF inErrBy = "exec" THEN "none" ELSE inErrBy) /\ inErr' = (IF inErrBy = "exec" THEN "none" ELSE inErr)
            /\ UNCHANGED <<st, termErr, ictx, latch, task, reqSent, online, avail, closedIn, pcol, ecol, cctx, outErrs, outClosed,
                           wire, hookCalls, waiters, status, nenv, gotTerminal>>

\* processResult: block hook outcome h, then the pause latch
Hook(h) ==
  /\ ex = "hook"
  /\ LET paused == latch \/ h = "pause" IN
     /\ latch' = FALSE
     /\ IF h = "error" THEN ex' = "finish" /\ exErr' = "fatal"
        ELSE IF paused THEN ex' = "finish" /\ exErr' = "paused"
        ELSE ex' = "load" /\ exErr' = "nil"
  /\ UNCHANGED <<st, termErr, ictx, task, k, reqSent, online, avail, inErr, inErrBy, closedIn, pcol, ecol, cctx, outErrs, outClosed,
                 wire, hookCalls, waiters, status, nenv, gotTerminal>>

\* after a missing block no block hook runs, only the pause latch is consulted
LatchOnly ==
  /\ ex = "latch" /\ latch' = FALSE
  /\ IF latch THEN ex' = "finish" /\ exErr' = "paused" ELSE ex' = "load" /\ exErr' = "nil"
  /\ UNCHANGED <<st, termErr, ictx, task, k, reqSent, online, avail, inErr, inErrBy, closedIn, pcol, ecol, cctx, outErrs, outClosed,
                 wire, hookCalls, waiters, status, nenv, gotTerminal>>

\* ExecuteTask after traverse returned an error
Finish ==
  /\ ex = "finish"
  /\ IF exErr = "ctx" THEN ex' = "release" /\ UNCHANGED <<wire, online, inErr, inErrBy>>
     ELSE /\ wire' = Append(wire, <<"B", "cancel">>) /\ online' = FALSE
          /\ IF exErr = "paused" THEN ex' = "release" /\ UNCHANGED <<inErr, inErrBy>>
             ELSE \/ ictx /\ ex' = "release" /\ UNCHANGED <<inErr, inErrBy>>             \* Go select: context done ...
                  \/ inErrBy = "none" /\ ~closedIn /\ inErr' = "fatal" /\ inErrBy' = "exec" /\ ex' = "finished"   \* ... or the error is taken
  /\ UNCHANGED <<st, termErr, ictx, latch, task, exErr, k, reqSent, avail, closedIn, pcol, ecol, cctx, outErrs, outClosed, hookCalls,
                 waiters, status, nenv, gotTerminal>>
Finished == /\ ex = "finished" /\ ((inErrBy = "exec" /\ inErr = "none") \/ ictx)
            /\ ex' = "release"
            /\ inErrBy' = (IF inErrBy = "exec" THEN "none" ELSE inErrBy) /\ inErr' = (IF inErrBy = "exec" THEN "none" ELSE inErr)
            /\ UNCHANGED <<st, termErr, ictx, latch, task, exErr, k, reqSent, online, avail, closedIn, pcol, ecol, cctx, outErrs,
                           outClosed, wire, hookCalls, waiters, status, nenv, gotTerminal>>

\* ---- collectors and caller ----------------------------------------------------------------
\* error collector: takes a pending internal error and hands it to the (reading) caller
ECollect == /\ ecol = "run" /\ inErr # "none" /\ ~cctx
            /\ outErrs' = Append(outErrs, inErr) /\ inErr' = "none"
            /\ UNCHANGED <<st, termErr, ictx, latch, task, ex, exErr, k, reqSent, online, avail, inErrBy, closedIn, pcol, ecol, cctx,
                           outClosed, wire, hookCalls, waiters, status, nenv, gotTerminal>>
EClosed == /\ ecol = "run" /\ closedIn /\ inErr = "none"
           /\ ecol' = "done" /\ outClosed' = <<outClosed[1], TRUE>>
           /\ outErrs' = IF cctx THEN Append(outErrs, "client") ELSE outErrs
           /\ UNCHANGED <<st, termErr, ictx, latch, task, ex, exErr, k, reqSent, online, avail, inErr, inErrBy, closedIn, pcol, cctx,
                          wire, hookCalls, waiters, status, nenv, gotTerminal>>
ECtx == /\ ecol = "run" /\ cctx /\ st # "setup"
        /\ ecol' = "done" /\ outErrs' = Append(outErrs, "client") /\ outClosed' = <<outClosed[1], TRUE>>
        /\ UNCHANGED <<st, termErr, ictx, latch, task, ex, exErr, k, reqSent, online, avail, inErr, inErrBy, closedIn, pcol, cctx,
                       wire, hookCalls, waiters, status, nenv, gotTerminal>>
\* progress collector: on caller-context cancellation it queues a cancel message and drains both internal channels
PCtx == /\ pcol = "run" /\ cctx /\ ~closedIn /\ st # "setup" /\ pcol' = "cancel"
        /\ UNCHANGED <<st, termErr, ictx, latch, task, ex, exErr, k, reqSent, online, avail, inErr, inErrBy, closedIn, ecol, cctx, outErrs,
                       outClosed, wire, hookCalls, waiters, status, nenv, gotTerminal>>
PSendCancel == /\ pcol = "cancel" /\ CancelMsg(FALSE) /\ pcol' = "drain" /\ UNCHANGED <<gotTerminal, nenv>>
PDrainErr == /\ pcol \in {"cancel", "drain"} /\ inErr # "none" /\ inErr' = "none"
             /\ UNCHANGED <<st, termErr, ictx, latch, task, ex, exErr, k, reqSent, online, avail, inErrBy, closedIn, pcol, ecol, cctx,
                            outErrs, outClosed, wire, hookCalls, waiters, status, nenv, gotTerminal>>
PClosed == /\ pcol \in {"run", "drain"} /\ closedIn /\ (pcol = "drain" => inErr = "none")
           /\ pcol' = "done" /\ outClosed' = <<TRUE, outClosed[2]>>
           /\ UNCHANGED <<st, termErr, ictx, latch, task, ex, exErr, k, reqSent, online, avail, inErr, inErrBy, closedIn, ecol, cctx, outErrs,
                          wire, hookCalls, waiters, status, nenv, gotTerminal>>
\* caller
CtxCancel == /\ ~cctx /\ nenv < MaxEnv /\ nenv' = nenv + 1 /\ cctx' = TRUE /\ gotTerminal' = gotTerminal /\ cancelLive' = ((Live \/ st = "setup") /\ termErr = "none" /\ status \notin {"full", "failed"})
             /\ UNCHANGED <<st, termErr, ictx, latch, task, ex, exErr, k, reqSent, online, avail, inErr, inErrBy, closedIn, pcol, ecol,
                            outErrs, outClosed, wire, hookCalls, waiters, status>>
ApiCancel == /\ nenv < MaxEnv /\ nenv' = nenv + 1 /\ CancelMsg(TRUE) /\ gotTerminal' = gotTerminal /\ pcol' = pcol

Env == \/ \E s \in {"partial", "paused", "full", "failed"}, hr \in {"ok", "update", "error"} : Responses("B", s, hr)
       \/ \E s \in {"partial", "paused", "full", "failed"}, hr \in {"ok", "update", "error"} : Responses("C", s, hr) /\ gotTerminal' = gotTerminal
       \/ PauseApi \/ CtxCancel \/ ApiCancel
Loaded == IF k > K THEN k - (K + 1) ELSE k
Sys == GetTask \/ Release \/ TerminateRest \/ RemoveTask \/ SetupDone \/ Pop \/ Load \/ Report \/ Reported \/ LatchOnly \/ (\E h \in {"ok", "pause", "error"} : Hook(h))
       \/ Finish \/ Finished \/ ECollect \/ EClosed \/ ECtx \/ PCtx \/ PSendCancel \/ PDrainErr \/ PClosed
EnvNoCtx == \/ \E s \in {"partial", "paused", "full", "failed"}, hr \in {"ok", "update", "error"} : bServing /\ Responses("B", s, hr)
            \/ \E s \in {"partial", "paused", "full", "failed"}, hr \in {"ok", "update", "error"} : Responses("C", s, hr) /\ gotTerminal' = gotTerminal
            \/ PauseApi \/ ApiCancel \/ FreeWorker
Next == CtxCancel \/ ((EnvNoCtx \/ Sys \/ UnpauseApi) /\ cancelLive' = cancelLive)
ActorCore == GetTask \/ Release \/ TerminateRest \/ RemoveTask
ActorSteps == ActorCore \/ SetupDone
ExecSteps == Pop \/ Load \/ Report \/ Reported \/ LatchOnly \/ (\E h \in {"ok", "pause", "error"} : Hook(h)) \/ Finish \/ Finished
EColSteps == ECollect \/ EClosed \/ ECtx
PColSteps == PCtx \/ PSendCancel \/ PDrainErr \/ PClosed
Fair(A) == WF_vars(A /\ cancelLive' = cancelLive)
Spec == Init /\ [][Next]_vars /\ Fair(ActorSteps) /\ Fair(ExecSteps) /\ Fair(EColSteps) /\ Fair(PColSteps) /\ Fair(UnpauseApi) /\ Fair(FreeWorker)
-----------------------------------------------------------------------------
\* C04 safety
ClosedBoth == outClosed = <<TRUE, TRUE>>
NothingAfterClose == [][outClosed[2] => outErrs' = outErrs]_vars
CancelYieldsClientError == (ClosedBoth /\ cctx /\ cancelLive) => \E i \in 1..Len(outErrs) : outErrs[i] = "client"
FailureYieldsError == (ClosedBoth /\ status = "failed" /\ ~cctx /\ termErr = "failed") => \E i \in 1..Len(outErrs) : outErrs[i] = "failed"
CancelOnWire == (cctx /\ cancelLive /\ ClosedBoth /\ reqSent /\ Loaded < K /\ k <= K /\ status \notin {"full", "failed"}) => \E i \in 1..Len(wire) : wire[i] = <<"B", "cancel">>
AtMostOneTerminalError == Cardinality({ i \in 1..Len(outErrs) : outErrs[i] \in {"client", "failed", "hook"} }) <= 1 + (IF cctx THEN 1 ELSE 0)
\* C04 liveness: terminal status from B, or caller cancel  ~>  both channels closed
Obliged == gotTerminal \/ cctx \/ waiters > 0     \* (a pause followed by a re-request re-arms the terminal-status obligation)
Terminates == Obliged ~> (ClosedBoth \/ ~Obliged)
\* C09: a message from C changes nothing but the environment counter
ThirdPartyInert == [][ (\E s \in {"partial", "paused", "full", "failed"}, hr \in {"ok", "update", "error"} : Responses("C", s, hr))
                       => UNCHANGED <<st, termErr, ictx, latch, task, ex, exErr, k, reqSent, online, avail, inErr, inErrBy, closedIn,
                                      pcol, ecol, cctx, outErrs, outClosed, wire, hookCalls, waiters, status>> ]_vars
NoHookForThirdParty == "C" \notin hookCalls
\* C23 (requestor half): when nothing can move, state and task queue agree
Quiescent == ~ENABLED Sys
StateAgreesWithQueue == Quiescent => /\ (st = "queued") = (task = "pending")
                                     /\ (st = "running") = (task = "active")
                                     /\ st \in {"paused", "gone", "none"} => task = "none"
=============================================================================
