-------------------------- MODULE RequestorOracle --------------------------
(* Judges real executions of RequestorScripts scripts (vh req-run).  Each line carries the    *)
(* script, the observables of the real run at quiescence, the set of final observables the   *)
(* design model (Dev = {}, verified by TLC for C04/C09/C23) allows for that script, and, for *)
(* scripts with third-peer messages, the observation of the same script without them.       *)
EXTENDS Naturals, Sequences, FiniteSets, TLC, Json, IOUtils
Cases == ndJsonDeserialize(IOEnv.VERIF_CASES)
VARIABLE n
ToSet(s) == { s[i] : i \in 1..Len(s) }
Count(s, x) == Cardinality({ i \in 1..Len(s) : s[i] = x })
TerminalKinds == {"client", "failed", "hook", "fatal"}

Obs(c) == c.obs
Finals(c) == ToSet(c.case.finals)
Closed(o) == o.closed = <<TRUE, TRUE>>
\* ---- C04
\* the design model says: after this script the request is obliged to end and in every allowed outcome both channels are closed
MustClose(c) == Finals(c) # {} /\ \A f \in Finals(c) : f.obliged /\ Closed(f)
Hang(c) == MustClose(c) /\ ~Closed(Obs(c))
MissingError(c, kind) == Finals(c) # {} /\ (\A f \in Finals(c) : Count(f.errs, kind) > 0) /\ Count(Obs(c).errs, kind) = 0
SpuriousError(c, kind) == Finals(c) # {} /\ (\A f \in Finals(c) : Count(f.errs, kind) = 0) /\ Count(Obs(c).errs, kind) > 0
DuplicateTerminal(c) == \E kind \in TerminalKinds : Count(Obs(c).errs, kind) > 1
LastKind(w) == LET S == { i \in 1..Len(w) : w[i][1] = "B" /\ w[i][2] \in {"new", "cancel"} } IN
               IF S = {} THEN "none" ELSE w[CHOOSE m \in S : \A y \in S : y <= m][2]
\* (a cancel that a later request for the same id follows -- pause, then resume -- may be replaced by it in the outgoing message:
\*  a cancel is demanded on the wire only where it is the last word)
NoCancelSent(c) == Finals(c) # {} /\ (\A f \in Finals(c) : LastKind(f.wire) = "cancel") /\ <<"B", "cancel">> \notin ToSet(Obs(c).wire)
\* the cancel is what the responder must be left with: a "new" for the same request put on the wire after the last cancel overrides it
CancelOverridden(c) == Finals(c) # {} /\ (\A f \in Finals(c) : LastKind(f.wire) = "cancel") /\ LastKind(Obs(c).wire) = "new"
C04Problems(c) == (IF Hang(c) THEN {"hang"} ELSE {})
   \cup (IF CancelOverridden(c) THEN {"cancel-overridden-by-later-request"} ELSE {})
   \cup (IF Obs(c).wedged THEN {"request-manager-loop-blocked"} ELSE {})
   \cup { "no-" \o k \o "-error" : k \in { kk \in {"client", "failed"} : MissingError(c, kk) } }
   \cup { "spurious-" \o k \o "-error" : k \in { kk \in TerminalKinds : SpuriousError(c, kk) } }
   \cup (IF DuplicateTerminal(c) THEN {"duplicate-terminal-error"} ELSE {})
   \cup (IF NoCancelSent(c) THEN {"no-cancel-on-wire"} ELSE {})
\* ---- C09
\* (update requests may coalesce with a later request for the same id in one outgoing message: not compared)
ToB(o) == { w \in ToSet(o.wire) : w[1] = "B" /\ w[2] # "update" }
SameAsBaseline(c) == LET o == Obs(c) b == c.baseline IN
   /\ o.closed = b.closed /\ o.st = b.st
   \* blocks delivered before a cancel / hook error reaches the executor is a race within the request itself
   /\ ((\A kind \in {"client", "hook", "fatal"} : Count(o.errs, kind) = 0) => o.k = b.k)
   \* a cancel replaces a not yet sent new request for the same id in the outgoing message: only the cancel is compared
   /\ (<<"B", "cancel">> \in ToB(o)) = (<<"B", "cancel">> \in ToB(b))
   \* (a block hook that returns an error while the request is being ended for another reason races with that ending: whether
   \*  its error is still delivered next to the other one is decided inside the request, not by the third peer)
   /\ LET OtherTerminal(x) == \E kk \in {"client", "failed", "hook"} : Count(x.errs, kk) > 0 IN
      \A kind \in TerminalKinds \cup {"missing"} :
         (kind = "fatal" /\ (OtherTerminal(o) \/ OtherTerminal(b))) \/ Count(o.errs, kind) = Count(b.errs, kind)
C09Problems(c) == (IF "C" \in ToSet(Obs(c).hooks) THEN {"third-peer-response-reached-response-hook"} ELSE {})
   \cup (IF "C" \in ToSet(Obs(c).blockHookPeers) THEN {"third-peer-response-reached-block-hook"} ELSE {})
   \cup (IF \E w \in ToSet(Obs(c).wire) : w[1] = "C" THEN {"message-sent-to-third-peer"} ELSE {})
   \cup (IF c.hasC /\ c.hasBaseline /\ ~SameAsBaseline(c) THEN {"outcome-differs-from-run-without-third-peer"} ELSE {})
\* ---- C23 (requestor side), observed at quiescence
C23Problems(c) == LET o == Obs(c) IN
   (IF o.diag # <<>> THEN {"diagnostics-not-empty"} ELSE {})
   \cup (IF (o.st = "queued") # (o.task = "pending") THEN {"queued-vs-pending"} ELSE {})
   \cup (IF (o.st = "running") # (o.task = "active") THEN {"running-vs-active"} ELSE {})
   \cup (IF o.st \in {"paused", "gone"} /\ o.task # "none" THEN {"idle-state-with-task"} ELSE {})
   \cup (IF o.st = "gone" /\ o.protected # <<>> THEN {"connection-still-protected"} ELSE {})
\* conformance with the design model's full observable projection (informational)
Proj(o) == <<o.st, o.closed, [kind \in TerminalKinds \cup {"missing"} |-> Count(o.errs, kind)], ToB(o), ToSet(o.hooks), IF Count(o.errs, "client") = 0 THEN o.k ELSE 0>>
Conforms(c) == \E f \in Finals(c) : Proj(f) = Proj(Obs(c))

Init == n = 0
Next == n < Len(Cases) /\ n' = n + 1
SetToSeq(S) == LET RECURSIVE F(_) F(T) == IF T = {} THEN <<>> ELSE LET x == CHOOSE y \in T : TRUE IN <<x>> \o F(T \ {x}) IN F(S)
Judge == n > 0 => LET c == Cases[n] IN
   PrintT(ToJson([id |-> c.case.id, c04 |-> SetToSeq(C04Problems(c)), c09 |-> SetToSeq(C09Problems(c)), c23 |-> SetToSeq(C23Problems(c)),
                  conforms |-> Conforms(c), desync |-> Obs(c).desync]))
=============================================================================
