CONSTANTS K = 2 Dev = {} MaxEnv = 4
SPECIFICATION Spec
INVARIANTS CancelYieldsClientError CancelOnWire NoHookForThirdParty StateAgreesWithQueue
PROPERTIES NothingAfterClose ThirdPartyInert Terminates
CHECK_DEADLOCK FALSE
