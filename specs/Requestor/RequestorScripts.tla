-------------------------- MODULE RequestorScripts --------------------------
(* Binding B4: environment scripts.  The same system as Requestor, with a history of the    *)
(* environment events (responder / third-peer messages, caller actions, block-hook          *)
(* decisions), each tagged with the stable point of the executor at which it happens.       *)
(* Environment events are only taken at points the harness can hold the real code at:       *)
(* inside a block hook, while the executor waits for the responder, before its first        *)
(* storage read of a run, or while no task runs.  At every quiescent state the script and   *)
(* the model's predicted observables are printed.                                           *)
EXTENDS Requestor, Json
VARIABLE hist
svars == <<vars, hist>>

Point == IF st = "setup" THEN "setup" ELSE IF ex = "hook" THEN "hook"
         ELSE IF ex = "load" /\ ~reqSent /\ k < K THEN "preload"
         ELSE IF ex = "load" /\ reqSent /\ online /\ avail = 0 /\ k < K THEN "wait"
         ELSE IF ex = "idle" /\ task # "pending" THEN "idle"
         ELSE IF st = "setup" THEN "setup"
         ELSE IF ex = "blocked" THEN "queued"
         ELSE "moving"
Stable == Point # "moving" /\ inErrBy = "none" /\ ~ENABLED (EColSteps \/ PColSteps \/ ActorCore)
Ev(name, a, b) == [ev |-> name, a |-> a, b |-> b, at |-> Point, k |-> Loaded]
Statuses == {"partial", "paused", "full", "failed"}
Reacts == {"ok", "update", "error"}

SInit == Init /\ ~(ex = "blocked" /\ st = "setup") /\ hist = (IF ex = "blocked" THEN <<[ev |-> "blockedstart", a |-> "", b |-> "", at |-> "queued", k |-> 0]>> ELSE <<>>)
                      \o (IF st = "setup" THEN <<[ev |-> "setupstart", a |-> "", b |-> "", at |-> "setup", k |-> 0]>> ELSE <<>>)
SEnv == /\ Stable /\ Point # "hook"
        /\ \/ \E s \in Statuses, hr \in Reacts : bServing /\ Responses("B", s, hr) /\ hist' = Append(hist, Ev("B", s, hr)) /\ cancelLive' = cancelLive
           \/ \E s \in Statuses, hr \in Reacts : Responses("C", s, hr) /\ gotTerminal' = gotTerminal /\ hist' = Append(hist, Ev("C", s, hr)) /\ cancelLive' = cancelLive
           \/ PauseApi /\ hist' = Append(hist, Ev("pause", "", "")) /\ cancelLive' = cancelLive
           \/ CtxCancel /\ hist' = Append(hist, Ev("ctxcancel", "", ""))
           \/ ApiCancel /\ hist' = Append(hist, Ev("apicancel", "", "")) /\ cancelLive' = cancelLive
           \/ UnpauseApi /\ nenv < MaxEnv /\ hist' = Append(hist, Ev("unpause", "", "")) /\ cancelLive' = cancelLive
           \/ FreeWorker /\ hist' = Append(hist, Ev("free", "", "")) /\ cancelLive' = cancelLive
           \/ SetupDone /\ hist' = Append(hist, Ev("setupdone", "", "")) /\ cancelLive' = cancelLive
\* inside the block hook the harness may fire environment events and then returns the hook's decision
SHookEnv == /\ ex = "hook" /\ inErrBy = "none"
            /\ \/ \E s \in Statuses, hr \in Reacts : bServing /\ Responses("B", s, hr) /\ hist' = Append(hist, Ev("B", s, hr)) /\ cancelLive' = cancelLive
               \/ \E s \in Statuses, hr \in Reacts : Responses("C", s, hr) /\ gotTerminal' = gotTerminal /\ hist' = Append(hist, Ev("C", s, hr)) /\ cancelLive' = cancelLive
               \/ PauseApi /\ hist' = Append(hist, Ev("pause", "", "")) /\ cancelLive' = cancelLive
               \/ CtxCancel /\ hist' = Append(hist, Ev("ctxcancel", "", ""))
               \/ ApiCancel /\ hist' = Append(hist, Ev("apicancel", "", "")) /\ cancelLive' = cancelLive
SHook == \E h \in {"ok", "pause", "error"} : Hook(h) /\ hist' = Append(hist, Ev("hook", h, "")) /\ cancelLive' = cancelLive
SSys == (GetTask \/ Release \/ TerminateRest \/ RemoveTask \/ Pop \/ Load \/ Report \/ Reported \/ LatchOnly \/ Finish \/ Finished
         \/ ECollect \/ EClosed \/ ECtx \/ PCtx \/ PSendCancel \/ PDrainErr \/ PClosed) /\ hist' = hist /\ cancelLive' = cancelLive
SNext == SEnv \/ SHookEnv \/ SHook \/ SSys

\* quiescent: nothing but the environment could move
SQuiet == ~ENABLED SSys /\ ex # "hook"
Final == [blocked |-> (ex = "blocked"), st |-> st, closed |-> outClosed, errs |-> outErrs, wire |-> wire, hooks |-> hookCalls, k |-> Loaded, task |-> task,
          obliged |-> Obliged, termErr |-> termErr]
EmitScript == SQuiet => PrintT(ToJson([script |-> hist, final |-> Final]))
=============================================================================
