----------------------------- MODULE Selector -----------------------------
(* Selector specifications as abstract syntax trees and the validity predicate of C08:      *)
(* every recursive exploration anywhere in the tree -- under any explore clause including   *)
(* interpret-as -- must be limited to a depth of at most MaxAccepted.  Each AST is an       *)
(* initial state; the single action "Validate" records the model's verdict, and the harness *)
(* compares it with selectorvalidator.ValidateMaxRecursionDepth on the same selector        *)
(* (kept only when go-ipld-prime's ParseSelector accepts it as well-formed).                *)
EXTENDS Naturals, Sequences, FiniteSets, TLC, Json
CONSTANTS MaxNodes, Limits, MaxAccepted,      \* Limits: subset of Nat; None (= 0) encodes the "no limit" member
          Depths                               \* nesting depths at which small selectors are additionally buried ({} = none)

None == 0
Leaves == { [k |-> "matcher"], [k |-> "edge"] }
Unary(S) == { [k |-> kk, n |-> s] : kk \in {"all", "index", "range", "interp", "fields1"}, s \in S }
              \cup { [k |-> "rec", lim |-> l, n |-> s] : l \in Limits, s \in S }
Binary(S1, S2) == { [k |-> kk, a |-> s1, b |-> s2] : kk \in {"union", "fields2"}, s1 \in S1, s2 \in S2 }

\* Exact(n): ASTs with exactly n nodes
RECURSIVE Exact(_)
Exact(n) == IF n = 1 THEN Leaves
            ELSE Unary(Exact(n-1)) \cup UNION { Binary(Exact(i), Exact(n-1-i)) : i \in 1..(n-2) }
ASTs == UNION { Exact(n) : n \in 1..MaxNodes }

RECURSIVE Valid(_)
Valid(s) == CASE s.k \in {"matcher", "edge"} -> TRUE
              [] s.k \in {"all", "index", "range", "interp", "fields1"} -> Valid(s.n)
              [] s.k = "rec" -> s.lim # None /\ s.lim <= MaxAccepted /\ Valid(s.n)
              [] s.k \in {"union", "fields2"} -> Valid(s.a) /\ Valid(s.b)

\* "at any nesting depth": every small selector that contains a recursion, buried under d enclosing clauses of one kind,
\* or of all kinds in turn
HasRec(s) == CASE s.k \in {"matcher", "edge"} -> FALSE
               [] s.k = "rec" -> TRUE
               [] s.k \in {"all", "index", "range", "interp", "fields1"} -> (LET RECURSIVE H(_) H(x) == CASE x.k \in {"matcher", "edge"} -> FALSE [] x.k = "rec" -> TRUE
                                                                                     [] x.k \in {"all", "index", "range", "interp", "fields1"} -> H(x.n) [] OTHER -> H(x.a) \/ H(x.b) IN H(s.n))
               [] OTHER -> (LET RECURSIVE H(_) H(x) == CASE x.k \in {"matcher", "edge"} -> FALSE [] x.k = "rec" -> TRUE
                                                          [] x.k \in {"all", "index", "range", "interp", "fields1"} -> H(x.n) [] OTHER -> H(x.a) \/ H(x.b) IN H(s.a) \/ H(s.b))
WrapKinds == {"all", "index", "range", "interp", "fields1", "union", "mix"}
Cycle == <<"all", "fields1", "interp", "index", "range", "union">>
Wrap1(kk, s) == IF kk = "union" THEN [k |-> "union", a |-> s, b |-> [k |-> "matcher"]] ELSE [k |-> kk, n |-> s]
RECURSIVE WrapN(_, _, _)
WrapN(kk, d, s) == IF d = 0 THEN s ELSE Wrap1(IF kk = "mix" THEN Cycle[(d % 6) + 1] ELSE kk, WrapN(kk, d - 1, s))
Cores == { s \in UNION { Exact(n) : n \in 1..3 } : HasRec(s) }
DeepASTs == { WrapN(kk, d, s) : kk \in WrapKinds, d \in Depths, s \in Cores }

\* (the state holds the small selector and how it is buried; the buried selector itself is only built when it is judged and
\*  printed, deep records in states overflow TLC's state-queue writer)
VARIABLES core, wk, wd, verdict
ast == WrapN(wk, wd, core)
Init == /\ verdict = "unknown"
        /\ \/ core \in ASTs /\ wk = "all" /\ wd = 0
           \/ core \in Cores /\ wk \in WrapKinds /\ wd \in Depths
Validate == verdict = "unknown" /\ verdict' = (IF Valid(ast) THEN "accept" ELSE "reject") /\ UNCHANGED <<core, wk, wd>>
Next == Validate
Emit == PrintT(ToJson([ast |-> ast, valid |-> Valid(ast)]))
\* sanity: the verdict, once given, is the predicate
VerdictRight == verdict # "unknown" => (verdict = "accept") = Valid(ast)
=============================================================================
