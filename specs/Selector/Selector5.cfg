CONSTANTS MaxNodes = 5 Limits = {0, 1, 100, 101, 1000000} MaxAccepted = 100 Depths = {7, 31, 32, 33, 64, 150}
INIT Init
NEXT Next
INVARIANT VerdictRight
ACTION_CONSTRAINT Emit
CHECK_DEADLOCK FALSE
