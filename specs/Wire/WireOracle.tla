----------------------------- MODULE WireOracle -----------------------------
(* Judges what the harness observed on the real codec (round trips, streams) and on the real *)
(* stream handler (malformations) with the definitions of Wire.tla.                          *)
EXTENDS Wire, IOUtils
Recs == ndJsonDeserialize(IOEnv.VERIF_CASES)
VARIABLE n
OInit == n = 0 /\ m = <<>> /\ phase = "oracle"
ONext == n < Len(Recs) /\ n' = n + 1 /\ UNCHANGED <<m, phase>>
JudgeRT == n > 0 => LET r == Recs[n] IN
   PrintT(ToJson([id |-> r.id, ok |-> (r.encErr = "" /\ r.decErr = "" /\ StreamOK(r.sent, r.got))]))
JudgeMut == n > 0 => LET r == Recs[n] IN
   PrintT(ToJson([id |-> r.id, ok |-> (r.skipped \/ CaseOK(r, r.obs))]))
=============================================================================
