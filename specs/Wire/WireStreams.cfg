INIT StreamInit
NEXT Next
INVARIANT EmitMsg
CHECK_DEADLOCK FALSE
