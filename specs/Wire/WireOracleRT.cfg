INIT OInit
NEXT ONext
INVARIANT JudgeRT
CHECK_DEADLOCK FALSE
