INIT OInit
NEXT ONext
INVARIANT JudgeMut
CHECK_DEADLOCK FALSE
