INIT MutInit
NEXT Next
INVARIANT EmitMsg
CHECK_DEADLOCK FALSE
