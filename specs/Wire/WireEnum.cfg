INIT Init
NEXT Next
INVARIANT EmitMsg
CHECK_DEADLOCK FALSE
