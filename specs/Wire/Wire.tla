-------------------------------- MODULE Wire --------------------------------
(* The graphsync/2.0.0 message space over small leaf sets, what "equivalent after a round    *)
(* trip" means (C11), the framing of a stream of length-prefixed messages, and a catalogue   *)
(* of malformations of valid encodings with the behaviour the stream handler owes (C12).    *)
(* TLC enumerates the bounded spaces (each element an initial state) and is the judge of    *)
(* what the harness observed on the real codec / stream handler.                            *)
EXTENDS Integers, Sequences, FiniteSets, TLC, Json

\* ---- leaves
Prios == {"0", "1", "-1", "max-int32", "min-int32"}
Roots == {"v0-dagpb", "v1-raw", "v1-dagcbor", "v1-identity"}
Sels == {"matcher", "all-recursive"}
Statuses == {10, 11, 12, 13, 14, 15, 20, 21, 30, 31, 32, 33, 34, 35}
Actions == {"Present", "DuplicateNotSent", "Missing", "DuplicateDAGSkipped"}
Links == {"v0-dagpb", "v1-raw", "v1-dagcbor"}
BlockNames == {"b-raw", "b-cbor", "b-v0", "b-identity", "b-empty"}
\* extension sets: sequences of [name, val]; val describes the payload
ExtVals == {"null", "string", "int-neg", "nested", "bytes", "list-empty"}
KnownExts == { [name |-> "graphsync/do-not-send-first-blocks", val |-> v] : v \in {"dnsf:0", "dnsf:1", "dnsf:big"} }
     \cup { [name |-> "graphsync/do-not-send-cids", val |-> v] : v \in {"dnsc:0", "dnsc:1", "dnsc:3"} }
     \cup { [name |-> "graphsync/dedup-by-key", val |-> v] : v \in {"key:", "key:a", "key:unicode"} }
PlainExts == { [name |-> "app/x", val |-> v] : v \in ExtVals }
ExtSets == {<<>>} \cup { <<e>> : e \in KnownExts \cup PlainExts }
           \cup { <<[name |-> "app/x", val |-> "string"], [name |-> "app/y", val |-> "null"]>>,
                  <<[name |-> "graphsync/dedup-by-key", val |-> "key:a"], [name |-> "graphsync/do-not-send-first-blocks", val |-> "dnsf:1"]>> }
MdSeqs == {<<>>} \cup { <<[l |-> l, a |-> a]>> : l \in Links, a \in Actions }
          \cup { <<[l |-> "v1-raw", a |-> "Present"], [l |-> "v1-raw", a |-> "Present"]>>,
                 <<[l |-> "v1-dagcbor", a |-> "Missing"], [l |-> "v0-dagpb", a |-> "DuplicateNotSent"], [l |-> "v1-raw", a |-> "DuplicateDAGSkipped"]>> }

NewReqs == { [id |-> 1, type |-> "New", prio |-> p, root |-> r, sel |-> s, ext |-> e] : p \in Prios, r \in Roots, s \in Sels, e \in ExtSets }
UpdReqs == { [id |-> 1, type |-> "Update", prio |-> "0", root |-> "", sel |-> "", ext |-> e] : e \in ExtSets }
CancelReq == [id |-> 1, type |-> "Cancel", prio |-> "0", root |-> "", sel |-> "", ext |-> <<>>]
Requests == NewReqs \cup UpdReqs \cup {CancelReq}
Responses == { [id |-> 1, status |-> s, md |-> m, ext |-> e] : s \in Statuses, m \in MdSeqs, e \in ExtSets }
Msg(rq, rs, bs) == [reqs |-> rq, resps |-> rs, blocks |-> bs]
\* representatives for composite messages
RepReqs == { r \in Requests : r.ext \in {<<>>, <<[name |-> "app/x", val |-> "string"]>>} /\ r.prio \in {"0", "1"} /\ r.root \in {"", "v1-dagcbor"} /\ r.sel \in {"", "matcher"} }
RepResps == { r \in Responses : r.ext = <<>> /\ r.status \in {14, 20, 34} /\ Len(r.md) \in {0, 3} }
WithId(r, i) == [r EXCEPT !.id = i]
SingleMsgs == { Msg(<<r>>, <<>>, <<>>) : r \in Requests } \cup { Msg(<<>>, <<r>>, <<>>) : r \in Responses }
              \cup { Msg(<<>>, <<>>, bs) : bs \in { <<"b-raw">>, <<"b-cbor">>, <<"b-v0">>, <<"b-identity">>, <<"b-empty">>, <<"b-raw", "b-cbor", "b-v0">> } }
CompositeMsgs == { Msg(<<r1, WithId(r2, 2)>>, <<>>, <<>>) : r1 \in RepReqs, r2 \in RepReqs }
                 \cup { Msg(<<>>, <<r1, WithId(r2, 2)>>, <<"b-raw">>) : r1 \in RepResps, r2 \in RepResps }
                 \cup { Msg(<<r1>>, <<WithId(r2, 2)>>, bs) : r1 \in RepReqs, r2 \in RepResps, bs \in {<<>>, <<"b-cbor", "b-raw">>} }
Messages == SingleMsgs \cup CompositeMsgs
EmptyMsg == Msg(<<>>, <<>>, <<>>)

\* ---- C11: equivalence after a round trip.  Requests/responses are keyed by id, extensions by name
\* (unordered), metadata is ordered, blocks are a set keyed by CID; a cancel carries nothing else.
ToSet(s) == { s[i] : i \in 1..Len(s) }
NormReq(r) == [id |-> r.id, type |-> r.type, prio |-> r.prio, root |-> r.root, sel |-> r.sel, ext |-> ToSet(r.ext)]
NormResp(r) == [id |-> r.id, status |-> r.status, md |-> r.md, ext |-> ToSet(r.ext)]
Norm(m) == [reqs |-> { NormReq(m.reqs[i]) : i \in 1..Len(m.reqs) }, resps |-> { NormResp(m.resps[i]) : i \in 1..Len(m.resps) }, blocks |-> ToSet(m.blocks)]
Equiv(a, b) == Norm(a) = Norm(b)

\* ---- framing: a stream is the concatenation of length-prefixed messages; the reader returns them one by one, then EOF
StreamOK(sent, got) == Len(got) = Len(sent) /\ \A i \in 1..Len(sent) : Equiv(sent[i], got[i])

\* ---- C12: malformations.  kind = class of damage, the handler owes "error" (receive error + reset),
\* or, where the bytes still decode, "deliver-or-error" with the delivered message well-formed
FrameMutations == {"bad-varint", "zero-length", "length-over-max", "truncated-body", "truncated-inner-cbor", "trailing-garbage-frame", "length-one-too-short", "length-one-too-long"}
SchemaMutations == {"id-len-0", "id-len-15", "id-len-17", "id-len-32", "wrong-kind-root", "wrong-kind-id", "wrong-kind-type", "unknown-request-type",
                    "unknown-status", "unknown-link-action", "missing-id", "missing-type", "missing-status", "extra-key", "bad-cid-prefix", "truncated-cid-prefix",
                    "unknown-multihash", "wrong-kind-blocks", "wrong-kind-message", "no-gs2", "wrong-kind-metadata", "root-not-link", "priority-string", "block-data-int"}
MustFail == (FrameMutations \ {"trailing-garbage-frame"}) \cup
            {"id-len-0", "id-len-15", "id-len-17", "id-len-32", "wrong-kind-root", "wrong-kind-id", "wrong-kind-type", "unknown-request-type",
             "unknown-link-action", "missing-id", "missing-type", "missing-status", "extra-key", "bad-cid-prefix", "truncated-cid-prefix",
             "wrong-kind-blocks", "wrong-kind-message", "no-gs2", "wrong-kind-metadata", "root-not-link", "priority-string", "block-data-int"}
\* whatever happens: no crash, later streams still served; an error is reported as a receive error with the stream reset;
\* a delivery carries only blocks keyed by the CID of their own bytes and 16-byte request ids
HandlerOK(o) == /\ ~o.crashed /\ o.nextStreamServed
                /\ (o.outcome = "error" => o.receiveError /\ o.reset)
                /\ (o.outcome = "delivered" => o.blocksSelfCertified /\ o.idsWellFormed)
                /\ o.outcome \in {"error", "delivered"}
MutationOK(kind, o) == HandlerOK(o) /\ (kind \in MustFail => o.outcome = "error")

\* positional damage: the inner encoding cut after pos bytes (frame length adjusted), the stream ending after pos bytes,
\* one byte overwritten.  pos ranges over more than any base message is long; the harness skips what does not apply.
MaxPos == 300
ByteVals == {0, 255, 1, 32, 128, 64}
MutCases == { [kind |-> k, base |-> b, pos |-> 0, val |-> 0] : k \in (FrameMutations \cup SchemaMutations \cup {"valid"}), b \in {"req", "rsp"} }
            \cup { [kind |-> k, base |-> b, pos |-> p, val |-> 0] : k \in {"inner-cut", "frame-cut"}, b \in {"req", "rsp"}, p \in 0..MaxPos }
            \cup { [kind |-> "byte-set", base |-> b, pos |-> p, val |-> v] : b \in {"req", "rsp"}, p \in 0..MaxPos, v \in ByteVals }
\* what each positional kind owes: any proper cut must fail; an empty stream is just a closed stream; an overwritten byte may still decode
PosOK(c, o) == /\ ~o.crashed /\ o.nextStreamServed
               /\ (o.outcome = "error" => o.receiveError /\ o.reset)
               /\ (o.outcome = "delivered" => o.blocksSelfCertified /\ o.idsWellFormed)
               /\ (c.kind \in {"inner-cut", "frame-cut"} /\ ~(c.kind = "frame-cut" /\ c.pos = 0) => o.outcome = "error")
               /\ (c.kind = "frame-cut" /\ c.pos = 0 => o.outcome = "none")
               /\ (c.kind = "byte-set" => o.outcome \in {"error", "delivered"})
CaseOK(c, o) == IF c.kind = "valid" THEN HandlerOK(o) /\ o.outcome = "delivered"
                ELSE IF c.kind \in {"inner-cut", "frame-cut", "byte-set"} THEN PosOK(c, o)
                ELSE MutationOK(c.kind, o)

\* ---- enumeration as initial states
VARIABLES m, phase
Init == m \in Messages /\ phase = "fresh"
Codec == phase = "fresh" /\ phase' = "roundtripped" /\ UNCHANGED m     \* the real codec runs here; TLC judges the observation in WireOracle
Next == Codec
EmitMsg == phase = "fresh" => PrintT(ToJson(m))
\* streams of several messages on one connection
StreamInit == m \in { <<a, b>> : a \in CompositeMsgs, b \in { x \in SingleMsgs : x.blocks # <<>> \/ (x.reqs # <<>> /\ x.reqs[1].ext = <<>> /\ x.reqs[1].prio = "0") } }
                    \cup { <<a, b, c>> : a \in { Msg(<<CancelReq>>, <<>>, <<>>) }, b \in { x \in CompositeMsgs : x.blocks # <<>> }, c \in { Msg(<<>>, <<>>, <<"b-raw", "b-cbor", "b-v0">>) } }
              /\ phase = "fresh"
\* malformations
MutInit == m \in MutCases /\ phase = "fresh"
=============================================================================
