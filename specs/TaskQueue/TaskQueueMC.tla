---------------------------- MODULE TaskQueueMC ----------------------------
EXTENDS TaskQueue
MCPeers == {"a", "b"}
MCTasks == [p \in MCPeers |-> IF p = "a" THEN {"a1", "a2"} ELSE {"b1"}]
MCTasks3 == [p \in {"a", "b", "c"} |-> IF p = "a" THEN {"a1", "a2"} ELSE IF p = "b" THEN {"b1", "b2"} ELSE {"c1"}]
=============================================================================
