CONSTANTS Peers = {"a", "b"} Tasks <- MCTasks Workers = {"w1"} MaxPerPeer = 0 Dev = {} MaxRemoves = 1
SPECIFICATION Spec
INVARIANTS WorkerLimit PerPeerLimit ActiveMatchesWorkers
PROPERTIES EventuallyRuns
CHECK_DEADLOCK FALSE
