CONSTANTS Peers = {"a", "b", "c"} Tasks <- MCTasks3 Workers = {"w1", "w2"} MaxPerPeer = 1 Dev = {} MaxRemoves = 2
SPECIFICATION Spec
INVARIANTS WorkerLimit PerPeerLimit ActiveMatchesWorkers
PROPERTIES EventuallyRuns
CHECK_DEADLOCK FALSE
