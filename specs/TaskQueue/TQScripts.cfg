CONSTANTS Peers = {"a", "b"} Tasks <- MCTasks Workers = {"w1"} MaxPerPeer = 0 Dev = {} MaxRemoves = 1 MaxEv = 5
INIT SInit
NEXT SNext
INVARIANT Emit
CHECK_DEADLOCK FALSE
