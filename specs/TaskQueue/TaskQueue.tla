----------------------------- MODULE TaskQueue -----------------------------
(* Worker task queue (taskqueue/taskqueue.go on top of go-peertaskqueue v0.8.3).             *)
(* Per peer: pending tasks (FIFO, equal priority), active tasks, freeze value.  Workers pop  *)
(* the best peer (has pending; lower freeze; less active work; more pending), a frozen or    *)
(* maxed-out best peer yields nothing.  Removing a pending task (a cancel) freezes its peer; *)
(* freeze values halve on thaw rounds.  Deviation "ThawOnlyWhenIdle": thaw rounds only run   *)
(* when a worker finds nothing to pop and waits for the ticker.                              *)
(* Property C21: never more executions than workers, never more per peer than the per-peer   *)
(* limit, and every pushed task that is not removed eventually starts, even while other      *)
(* peers keep pushing.                                                                       *)
EXTENDS Integers, Sequences, FiniteSets, TLC
CONSTANTS Peers, Tasks, Workers, MaxPerPeer,   \* MaxPerPeer = 0: no per-peer limit
          Dev, MaxRemoves

VARIABLES pending,   \* [Peers -> Seq(Tasks)]
          active,    \* [Peers -> SUBSET Tasks]
          freeze,    \* [Peers -> Nat]
          wk,        \* [Workers -> [pc, p, t]]  pc: "pop","wait","exec"
          signal,    \* one-slot work signal
          started,   \* ghost: tasks that ever started
          removed,   \* ghost: tasks removed while pending
          nrem,
          order          \* push order of the pending tasks (for the design's oldest-first tie break)
vars == <<pending, active, freeze, wk, signal, started, removed, nrem, order>>
Idle == [pc |-> "pop", p |-> "", t |-> ""]
Init == /\ pending = [p \in Peers |-> <<>>] /\ active = [p \in Peers |-> {}] /\ freeze = [p \in Peers |-> 0]
        /\ wk = [w \in Workers |-> Idle] /\ signal = FALSE /\ started = {} /\ removed = {} /\ nrem = 0
        /\ order = <<>>

Owner(t) == CHOOSE p \in Peers : t \in Tasks[p]
InQueue(t) == \E p \in Peers : t \in active[p] \/ \E i \in 1..Len(pending[p]) : pending[p][i] = t
\* environment: a peer submits one of its tasks that is not in the queue (tasks are recycled: arrivals never stop)
Push(p, t) == /\ t \in Tasks[p] /\ ~InQueue(t) /\ t \notin removed
              /\ pending' = [pending EXCEPT ![p] = Append(@, t)] /\ signal' = TRUE
              /\ order' = Append(order, t)
              /\ UNCHANGED <<active, freeze, wk, started, removed, nrem>>
\* a cancel removes a pending task and freezes its peer
Remove(p, i) == /\ nrem < MaxRemoves /\ i \in 1..Len(pending[p])
                /\ pending' = [pending EXCEPT ![p] = SubSeq(@, 1, i-1) \o SubSeq(@, i+1, Len(@))]
                /\ freeze' = [freeze EXCEPT ![p] = @ + 1] /\ removed' = removed \cup {pending[p][i]} /\ nrem' = nrem + 1
                /\ order' = SelectSeq(order, LAMBDA x : x # pending[p][i])
                /\ UNCHANGED <<active, wk, signal, started>>

Pos(x) == CHOOSE i \in 1..Len(order) : order[i] = x
Older(x, y) == x # y /\ Pos(x) < Pos(y)
\* peer comparator of go-peertaskqueue: TRUE iff a is strictly better than b
Better(a, b) == LET pa == Len(pending[a]) pb == Len(pending[b]) IN
   IF pa = 0 THEN FALSE ELSE IF pb = 0 THEN TRUE
   ELSE IF freeze[a] # freeze[b] THEN freeze[a] < freeze[b]
   ELSE IF Cardinality(active[a]) # Cardinality(active[b]) THEN Cardinality(active[a]) < Cardinality(active[b])
   ELSE IF "MorePendingWins" \in Dev THEN pa > pb                            \* library comparator: the longer queue wins (ties arbitrary)
   ELSE Older(pending[a][1], pending[b][1])                                   \* design: the longest waiting head task wins
Best == { p \in Peers : \A q \in Peers \ {p} : ~Better(q, p) }      \* candidates for the top of the heap
Poppable(p) == Len(pending[p]) > 0 /\ freeze[p] = 0 /\ (MaxPerPeer = 0 \/ Cardinality(active[p]) < MaxPerPeer)
\* PopTasks: looks at the top peer only
TryPop(w) == \E p \in Best :
   IF Poppable(p) THEN /\ wk' = [wk EXCEPT ![w] = [pc |-> "exec", p |-> p, t |-> Head(pending[p])]]
                       /\ pending' = [pending EXCEPT ![p] = Tail(@)] /\ active' = [active EXCEPT ![p] = @ \cup {Head(pending[p])}]
                       /\ started' = started \cup {Head(pending[p])}
                       /\ order' = SelectSeq(order, LAMBDA x : x # Head(pending[p]))
   ELSE /\ wk' = [wk EXCEPT ![w] = [pc |-> "wait", p |-> "", t |-> ""]] /\ UNCHANGED <<pending, active, started, order>>
ThawAll == [p \in Peers |-> freeze[p] - ((freeze[p] + 1) \div 2)]
ScheduledThaw == "ThawOnlyWhenIdle" \notin Dev        \* design: thaw rounds run on schedule whether or not workers are idle
Pop(w) == /\ wk[w].pc = "pop" /\ TryPop(w) /\ UNCHANGED <<freeze, signal, removed, nrem>>
Wake(w) == /\ wk[w].pc = "wait" /\ signal /\ signal' = FALSE /\ TryPop(w) /\ UNCHANGED <<freeze, removed, nrem>>
\* the ticker fires for a waiting worker: thaw round, then the worker pops again
Tick(w) == /\ wk[w].pc = "wait"
           /\ freeze' = ThawAll
           /\ wk' = [wk EXCEPT ![w] = Idle] /\ UNCHANGED <<pending, active, signal, started, removed, nrem, order>>
\* design only: a timer thaws frozen peers although every worker is busy or popping
TimerThaw == /\ ScheduledThaw /\ \E p \in Peers : freeze[p] > 0
             /\ freeze' = ThawAll /\ UNCHANGED <<pending, active, wk, signal, started, removed, nrem, order>>
Done(w) == /\ wk[w].pc = "exec"
           /\ active' = [active EXCEPT ![wk[w].p] = @ \ {wk[w].t}] /\ wk' = [wk EXCEPT ![w] = Idle]
           /\ UNCHANGED <<pending, freeze, signal, started, removed, nrem, order>>
WorkerStep(w) == Pop(w) \/ Wake(w) \/ Tick(w) \/ Done(w)
Env == \E p \in Peers : (\E t \in Tasks[p] : Push(p, t)) \/ (\E i \in 1..Len(pending[p]) : Remove(p, i))
Next == Env \/ TimerThaw \/ \E w \in Workers : WorkerStep(w)
Spec == Init /\ [][Next]_vars /\ \A w \in Workers : WF_vars(WorkerStep(w)) /\ WF_vars(TimerThaw)
-----------------------------------------------------------------------------
AllTasks == UNION { Tasks[p] : p \in Peers }
Executing == { w \in Workers : wk[w].pc = "exec" }
WorkerLimit == Cardinality(Executing) <= Cardinality(Workers)
PerPeerLimit == MaxPerPeer > 0 => \A p \in Peers : Cardinality(active[p]) <= MaxPerPeer
ActiveMatchesWorkers == \A p \in Peers : active[p] = { wk[w].t : w \in { x \in Executing : wk[x].p = p } }
IsPending(t) == \E p \in Peers : \E i \in 1..Len(pending[p]) : pending[p][i] = t
\* C21 liveness: a pending task is eventually started or removed
EventuallyRuns == \A t \in AllTasks : IsPending(t) ~> (~IsPending(t))
=============================================================================
