CONSTANTS Peers = {"a", "b", "c"} Tasks <- MCTasks3 Workers = {"w1", "w2"} MaxPerPeer = 1 Dev = {} MaxRemoves = 1 MaxEv = 4
INIT SInit
NEXT SNext
INVARIANT Emit
CHECK_DEADLOCK FALSE
