-------------------------- MODULE TaskQueueScripts --------------------------
(* Environment scripts for the real WorkerTaskQueue: pushes, removals, task completions and  *)
(* ticker periods, in the order of a TaskQueue behaviour.  Printed when MaxEv events happened. *)
EXTENDS TaskQueueMC, Json
CONSTANT MaxEv
VARIABLES hist
svars == <<vars, hist>>
SInit == Init /\ hist = <<>>
Ev(e, p, t) == [ev |-> e, p |-> p, t |-> t]
SNext == /\ Len(hist) < MaxEv
         /\ \/ \E p \in Peers : \E t \in Tasks[p] : Push(p, t) /\ hist' = Append(hist, Ev("push", p, t))
            \/ \E p \in Peers : \E i \in 1..Len(pending[p]) : Remove(p, i) /\ hist' = Append(hist, Ev("remove", p, pending[p][i]))
            \/ \E w \in Workers : Done(w) /\ hist' = Append(hist, Ev("done", wk[w].p, wk[w].t))
            \/ \E w \in Workers : Tick(w) /\ hist' = Append(hist, Ev("tick", "", ""))
            \/ (TimerThaw /\ hist' = Append(hist, Ev("tick", "", "")))
            \/ \E w \in Workers : (Pop(w) \/ Wake(w)) /\ hist' = hist
Emit == Len(hist) = MaxEv => PrintT(ToJson([script |-> hist, started |-> started, removed |-> removed]))
=============================================================================
