--------------------------- MODULE TaskQueueOracle ---------------------------
(* Judges runs of the real WorkerTaskQueue (vh tq-run) on TLC-generated scripts and lassos.  *)
EXTENDS Naturals, Sequences, FiniteSets, TLC, Json, IOUtils
Recs == ndJsonDeserialize(IOEnv.VERIF_CASES)
VARIABLE n
SetToSeq(S) == LET RECURSIVE F(_) F(T) == IF T = {} THEN <<>> ELSE LET x == CHOOSE y \in T : TRUE IN <<x>> \o F(T \ {x}) IN F(S)
Problems(r) == LET c == r.case o == r.obs IN
   (IF o.maxExec > c.workers THEN {"more-executions-than-workers"} ELSE {})
   \cup (IF c.maxPerPeer > 0 /\ o.maxPerPeerSeen > c.maxPerPeer THEN {"per-peer-limit-exceeded"} ELSE {})
   \cup (IF o.unstarted # <<>> THEN {"task-never-started-after-queue-was-left-alone"} ELSE {})
   \cup (IF o.finalActive # 0 \/ o.finalPending # 0 THEN {"queue-not-empty-at-the-end"} ELSE {})
   \cup (IF c.repeat > 0 /\ o.notStartedByLoopEnd # <<>> THEN {"starved-while-other-peers-keep-submitting"} ELSE {})
Init == n = 0
Next == n < Len(Recs) /\ n' = n + 1
Judge == n > 0 => PrintT(ToJson([id |-> Recs[n].case.id, problems |-> SetToSeq(Problems(Recs[n])), desync |-> Recs[n].obs.desync]))
=============================================================================
