------------------------------ MODULE MsgQueue ------------------------------
(* One peer's outgoing message queue (messagequeue/messagequeue.go) with its callers         *)
(* (responseassembler's responseStream.execute) and the memory allocator.                   *)
(* Caller threads: Begin (closed-stream check + memory reservation), Build (under the       *)
(* builders lock), Signal.  Queue goroutine: TakeWork (extract), SendOK / SendFail          *)
(* (publish, release, scrub), TakeDone (shutdown: drain, release everything, exit).         *)
(* Named deviations (Dev): where the code differs from the intended design.                 *)
(* Properties: C15 (idle queue => no accounted memory), C16 (every attachment told sent or  *)
(* failed exactly once).                                                                    *)
EXTENDS Naturals, Sequences, FiniteSets, TLC
CONSTANTS Reqs, MaxCalls, MaxBlk, Dev, AllowFail, AllowShutdown
FixExt == "ExtBytesNotReleased" \notin Dev
FixScrub == "ScrubKeepsLastOnly" \notin Dev

\* an op list is abstracted to: blk bytes, ext bytes
OpsSet == { [blk |-> b, ext |-> e] : b \in 0..1, e \in 0..1 }

VARIABLES alloc, builders, work, done, rq, cur, closed, caller, ncalls,
          attached,   \* set of <<topic, r>> subscribed at build time (builder.subscribers) - ghost of who must be told
          told,       \* function <<topic,r>> -> count of terminal notifications
          nextTopic, reserved, released

vars == <<alloc, builders, work, done, rq, cur, closed, caller, ncalls, attached, told, nextTopic, reserved, released>>
NoCur == [topic |-> 0, size |-> 0, subs |-> {}, streams |-> {}]
CIdle == [pc |-> "idle", size |-> 0, ops |-> [blk |-> 0, ext |-> 0]]
Min(a, b) == IF a < b THEN a ELSE b

Init == /\ alloc = 0 /\ builders = <<>> /\ work = FALSE /\ done = FALSE /\ rq = "idle" /\ cur = NoCur
        /\ closed = [r \in Reqs |-> FALSE] /\ caller = [r \in Reqs |-> CIdle] /\ ncalls = 0
        /\ attached = {} /\ told = [x \in {} |-> 0] /\ nextTopic = 1 /\ reserved = 0 /\ released = 0

Tell(tp, subs) == [x \in DOMAIN told \cup { <<tp, r>> : r \in subs } |->
                     (IF x \in DOMAIN told THEN told[x] ELSE 0) + (IF x[1] = tp /\ x[2] \in subs THEN 1 ELSE 0)]

Release(n) == /\ alloc' = alloc - Min(alloc, n) /\ released' = released + Min(alloc, n)

\* ---- caller threads: responseStream.execute -> AllocateAndBuildMessage ----
Begin(r, ops) ==
  /\ caller[r].pc = "idle" /\ ncalls < MaxCalls /\ ~closed[r] /\ rq # "exited"
  /\ ncalls' = ncalls + 1
  /\ LET size == ops.blk + ops.ext IN
     /\ alloc' = alloc + size /\ reserved' = reserved + size
     /\ caller' = [caller EXCEPT ![r] = [pc |-> "allocated", size |-> size, ops |-> ops]]
  /\ UNCHANGED <<builders, work, done, rq, cur, closed, attached, told, nextTopic, released>>

Build(r) ==
  /\ caller[r].pc = "allocated"
  /\ IF rq = "exited" /\ "BuildAfterExit" \notin Dev THEN
        \* design: a queue that has stopped refuses the data: the reservation goes back and the caller is told it failed
        /\ alloc' = alloc - Min(alloc, caller[r].size) /\ released' = released + Min(alloc, caller[r].size)
        /\ attached' = attached \cup {<<nextTopic, r>>} /\ told' = Tell(nextTopic, {r}) /\ nextTopic' = nextTopic + 1
        /\ caller' = [caller EXCEPT ![r] = CIdle]
        /\ UNCHANGED <<builders, work, done, rq, cur, closed, ncalls, reserved>>
     ELSE
     LET size == caller[r].size ops == caller[r].ops
         newb == builders = <<>> \/ (size > 0 /\ builders[Len(builders)].blk + size > MaxBlk)
         bs == IF newb THEN Append(builders, [topic |-> nextTopic, blk |-> 0, ext |-> 0, subs |-> {}, per |-> [q \in Reqs |-> [blk |-> 0, ext |-> 0, any |-> FALSE]]]) ELSE builders
         n == Len(bs) b == bs[n]
         b2 == IF closed[r] THEN b
               ELSE [b EXCEPT !.blk = @ + ops.blk, !.ext = @ + ops.ext, !.subs = @ \cup {r},
                              !.per[r] = [blk |-> @.blk + ops.blk, ext |-> @.ext + ops.ext, any |-> TRUE]]
         giveBack == IF closed[r] /\ "ClosedStreamAfterReserve" \notin Dev THEN Min(alloc, size) ELSE 0   \* design: nothing queued => reservation returned
     IN /\ builders' = [bs EXCEPT ![n] = b2]
        /\ nextTopic' = IF newb THEN nextTopic + 1 ELSE nextTopic
        /\ attached' = IF closed[r] THEN attached ELSE attached \cup {<<b.topic, r>>}
        /\ caller' = [caller EXCEPT ![r] = [pc |-> IF b2.subs # {} THEN "built" ELSE "idle", size |-> 0, ops |-> ops]]
        /\ alloc' = alloc - giveBack /\ released' = released + giveBack
        /\ UNCHANGED <<work, done, rq, cur, closed, ncalls, told, reserved>>

Signal(r) == /\ caller[r].pc = "built" /\ work' = TRUE /\ caller' = [caller EXCEPT ![r] = CIdle]
             /\ UNCHANGED <<alloc, builders, done, rq, cur, closed, ncalls, attached, told, nextTopic, reserved, released>>

\* ---- runQueue goroutine ----
TakeWork ==
  /\ rq = "idle" /\ work
  /\ IF builders = <<>> THEN /\ work' = FALSE /\ UNCHANGED <<builders, rq, cur>>
     ELSE LET b == Head(builders) IN
          /\ builders' = Tail(builders)
          /\ work' = (Len(builders) > 1)
          /\ IF b.subs = {} THEN UNCHANGED <<rq, cur>>
             ELSE /\ rq' = "sending"
                  /\ cur' = [topic |-> b.topic, size |-> IF FixExt THEN b.blk + b.ext ELSE b.blk, subs |-> b.subs, streams |-> b.subs]
  /\ UNCHANGED <<alloc, done, closed, caller, ncalls, attached, told, nextTopic, reserved, released>>

SendOK ==
  /\ rq = "sending" /\ rq' = "idle" /\ cur' = NoCur
  /\ told' = Tell(cur.topic, cur.subs)
  /\ Release(cur.size)
  /\ UNCHANGED <<builders, work, done, closed, caller, ncalls, attached, nextTopic, reserved>>

\* scrub request ids out of every queued builder; returns <<builders', freed>>
ScrubAll(bs, ids) ==
  LET scr(b) == [b EXCEPT !.subs = @ \ ids,
                           !.blk = @ - (LET RECURSIVE S(_) S(q) == IF q = {} THEN 0 ELSE LET x == CHOOSE y \in q : TRUE IN b.per[x].blk + S(q \ {x}) IN S(ids)),
                           !.ext = @ - (LET RECURSIVE S(_) S(q) == IF q = {} THEN 0 ELSE LET x == CHOOSE y \in q : TRUE IN b.per[x].ext + S(q \ {x}) IN S(ids)),
                           !.per = [q \in Reqs |-> IF q \in ids THEN [blk |-> 0, ext |-> 0, any |-> FALSE] ELSE @[q]]]
      freedOf(b) == IF FixExt THEN (b.blk + b.ext) - (scr(b).blk + scr(b).ext)     \* design: everything reserved for the scrubbed data
                    ELSE b.blk - scr(b).blk                                       \* code: ScrubResponses returns freed *block* bytes only
      all == [i \in 1..Len(bs) |-> scr(bs[i])]
      kept == SelectSeq(all, LAMBDA b : b.subs # {})
      RECURSIVE Sum(_) Sum(i) == IF i = 0 THEN 0 ELSE freedOf(bs[i]) + Sum(i-1)
      freed == IF FixScrub THEN Sum(Len(bs)) ELSE (IF bs = <<>> THEN 0 ELSE freedOf(bs[Len(bs)]))
  IN <<kept, freed>>

Fail(toDone) ==
  LET sc == ScrubAll(builders, cur.streams) IN
  /\ closed' = [r \in Reqs |-> closed[r] \/ r \in cur.streams]
  /\ builders' = sc[1]
  /\ told' = Tell(cur.topic, cur.subs)
  /\ alloc' = (alloc - Min(alloc, sc[2])) - Min(alloc - Min(alloc, sc[2]), cur.size)
  /\ released' = released + Min(alloc, sc[2]) + Min(alloc - Min(alloc, sc[2]), cur.size)
  /\ cur' = NoCur
  \* attachments whose data is scrubbed are void: the request was told of the failure through the failed message
  /\ attached' = attached \ { <<builders[i].topic, r>> : i \in 1..Len(builders), r \in cur.streams }

SendFail ==
  /\ AllowFail /\ rq = "sending" /\ rq' = "idle" /\ Fail(FALSE)
  /\ UNCHANGED <<work, done, caller, ncalls, nextTopic, reserved>>

Shutdown == /\ AllowShutdown /\ ~done /\ done' = TRUE
            /\ UNCHANGED <<alloc, builders, work, rq, cur, closed, caller, ncalls, attached, told, nextTopic, reserved, released>>

\* done branch of the select: drains only if a work token is present
RECURSIVE DrainTold(_, _)
DrainTold(bs, t) == IF bs = <<>> THEN t ELSE
   LET b == Head(bs) t2 == [x \in DOMAIN t \cup { <<b.topic, r>> : r \in b.subs } |-> (IF x \in DOMAIN t THEN t[x] ELSE 0) + (IF x[1] = b.topic /\ x[2] \in b.subs THEN 1 ELSE 0)]
   IN DrainTold(Tail(bs), t2)

TakeDone ==
  /\ rq = "idle" /\ done
  /\ rq' = "exited"
  /\ IF work \/ "DoneDrainNeedsToken" \notin Dev THEN /\ told' = DrainTold(builders, told) /\ builders' = <<>> /\ work' = FALSE
                  /\ closed' = [r \in Reqs |-> closed[r] \/ \E i \in 1..Len(builders) : r \in builders[i].subs]
     ELSE UNCHANGED <<told, builders, work, closed>>
  /\ released' = released + alloc /\ alloc' = 0         \* ReleasePeerMemory
  /\ UNCHANGED <<done, cur, caller, ncalls, attached, nextTopic, reserved>>

Next == TakeWork \/ SendOK \/ SendFail \/ Shutdown \/ TakeDone \/ \E r \in Reqs : Signal(r) \/ Build(r) \/ \E o \in OpsSet : Begin(r, o)
Spec == Init /\ [][Next]_vars

CallersIdle == \A r \in Reqs : caller[r].pc = "idle"
IdleQ == CallersIdle /\ builders = <<>> /\ rq \in {"idle", "exited"} /\ ~work
\* C15: once the queue is idle the peer's accounted memory is zero
C15 == IdleQ => alloc = 0
\* C16: every attachment told exactly once by the time nothing more can happen
NothingMore == CallersIdle /\ rq \in {"idle", "exited"} /\ (rq = "idle" => ~work /\ ~done)
C16 == /\ \A x \in DOMAIN told : told[x] <= 1
       /\ NothingMore => \A x \in attached : x \in DOMAIN told /\ told[x] = 1
=============================================================================
