CONSTANTS Reqs = {"r1", "r2"} MaxCalls = 4 MaxBlk = 1 Dev = {} AllowFail = TRUE AllowShutdown = TRUE
INIT Init
NEXT Next
INVARIANTS C15 C16
CHECK_DEADLOCK FALSE
