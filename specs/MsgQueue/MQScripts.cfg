CONSTANTS Reqs = {"r1", "r2"} MaxCalls = 2 MaxBlk = 1 Dev = {} AllowFail = TRUE AllowShutdown = TRUE
INIT SInit
NEXT SNext
INVARIANT Emit
CHECK_DEADLOCK FALSE
