-------------------------- MODULE MsgQueueScripts --------------------------
(* Environment scripts for the real message queue: a caller's memory reservation ("begin")  *)
(* and the rest of its call ("finish": build + signal) are separate events, so a send        *)
(* failure or a shutdown can fall between them; send outcomes and shutdown are events.       *)
EXTENDS MsgQueue, Json
VARIABLE hist
svars == <<vars, hist>>
SInit == Init /\ hist = <<>>
Ev(e, r, o) == [ev |-> e, r |-> r, blk |-> o.blk, ext |-> o.ext]
NoOps == [blk |-> 0, ext |-> 0]
SomeBuilt == \E r \in Reqs : caller[r].pc = "built"
SNext == \/ \E r \in Reqs : Signal(r) /\ hist' = hist
         \/ /\ ~SomeBuilt
            /\ \/ \E r \in Reqs, o \in OpsSet : Begin(r, o) /\ hist' = Append(hist, Ev("begin", r, o))
               \/ \E r \in Reqs : Build(r) /\ hist' = Append(hist, Ev("finish", r, NoOps))
               \/ SendOK /\ hist' = Append(hist, Ev("sendok", "", NoOps))
               \/ SendFail /\ hist' = Append(hist, Ev("sendfail", "", NoOps))
               \/ Shutdown /\ hist' = Append(hist, Ev("shutdown", "", NoOps))
               \/ (TakeWork \/ TakeDone) /\ hist' = hist
Quiet == CallersIdle /\ rq \in {"idle", "exited"} /\ ~ENABLED (TakeWork \/ TakeDone)
RECURSIVE SetToSeq(_)
SetToSeq(S) == IF S = {} THEN <<>> ELSE LET x == CHOOSE y \in S : TRUE IN <<x>> \o SetToSeq(S \ {x})
Emit == (Quiet /\ ncalls = MaxCalls) => PrintT(ToJson([script |-> hist, alloc |-> alloc, exited |-> (rq = "exited")]))
=============================================================================
