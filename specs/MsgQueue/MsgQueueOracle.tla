--------------------------- MODULE MsgQueueOracle ---------------------------
(* Judges runs of the real message queue stack (response assembler + peer message manager + *)
(* message queue + allocator) on TLC-generated and directed scripts (vh mq-run).            *)
EXTENDS Naturals, Sequences, FiniteSets, TLC, Json, IOUtils
Recs == ndJsonDeserialize(IOEnv.VERIF_CASES)
VARIABLE n
ToSet(s) == { s[i] : i \in 1..Len(s) }
SetToSeq(S) == LET RECURSIVE F(_) F(T) == IF T = {} THEN <<>> ELSE LET x == CHOOSE y \in T : TRUE IN <<x>> \o F(T \ {x}) IN F(S)
ToldKeys(o) == DOMAIN o.told
\* C15: once the peer's queue is idle nothing is accounted to the peer and nothing waits for memory
C15Problems(o) == (IF o.idle /\ o.alloc # 0 THEN {"memory-still-accounted-when-idle"} ELSE {})
                  \cup (IF o.idle /\ o.pendingAlloc # 0 THEN {"allocation-still-pending-when-idle"} ELSE {})
                  \cup (IF ~o.idle THEN {"caller-blocked-forever"} ELSE {})
\* C16: every attachment (at extraction, or still queued when the queue stopped) is told sent or failed exactly once
Count(s, x) == Cardinality({ i \in 1..Len(s) : s[i] = x })
C16Problems(o) == (IF \E e \in ToSet(o.expected) : e \notin ToldKeys(o) \/ Len(o.told[e]) < Count(o.expected, e) THEN {"attachment-never-told"} ELSE {})
                  \cup (IF \E k \in ToldKeys(o) : Len(o.told[k]) > Count(o.expected, k) /\ Count(o.expected, k) > 0 THEN {"attachment-told-twice"} ELSE {})
                  \cup (IF o.extraTold # <<>> THEN {"told-without-attachment"} ELSE {})
\* C17 (queue part): one live queue goroutine at a time, messages leave in the order their builders were created
C17Problems(o) == (IF o.maxLive > 1 THEN {"two-live-queues"} ELSE {})
                  \cup (IF o.conns = 0 /\ o.peerScript /\ o.queuesLive > 0 THEN {"queue-outlives-last-disconnect"} ELSE {})
                  \cup (IF \E i \in 1..(Len(o.wireTopics) - 1) : o.wireTopics[i] > o.wireTopics[i+1] /\ o.started = 1 THEN {"messages-left-out-of-order"} ELSE {})
Init == n = 0
Next == n < Len(Recs) /\ n' = n + 1
Judge == n > 0 => LET o == Recs[n].obs IN
   PrintT(ToJson([id |-> Recs[n].case.id, c15 |-> SetToSeq(C15Problems(o)), c16 |-> SetToSeq(C16Problems(o)), c17 |-> SetToSeq(C17Problems(o)), desync |-> o.desync]))
=============================================================================
