CONSTANTS MaxScript = 0 MaxN = 99 Dev = {}
INIT FileInit
NEXT Stutter
INVARIANT JudgeSound
CHECK_DEADLOCK FALSE
