CONSTANTS MaxN = 3 Dev = {}
INIT EnumInit
NEXT CaseNext
INVARIANT EmitCase
CHECK_DEADLOCK FALSE
