CONSTANTS MaxScript = 0 MaxPause = 0 MaxN = 3 Dev = {}
INIT EnumInit
NEXT CaseNext
INVARIANT EmitCase
CHECK_DEADLOCK FALSE
