CONSTANTS MaxScript = 0 MaxPause = 0 MaxN = 4 Dev = {}
INIT BudgetInit
NEXT CaseNext
INVARIANT EmitBudgetCases
CHECK_DEADLOCK FALSE
