CONSTANTS MaxScript = 0 MaxPause = 0 MaxN = 3 Dev = {"PathLen", "SkipCount"}
INIT EnumInit
NEXT Next
INVARIANTS Complete
CHECK_DEADLOCK FALSE
