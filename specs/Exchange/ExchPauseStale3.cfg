CONSTANTS MaxScript = 0 MaxPause = 1 MaxN = 3 Dev = {"StaleQueueOnResume"}
INIT EnumInit
NEXT Next
INVARIANTS Complete NoHang
CHECK_DEADLOCK FALSE
