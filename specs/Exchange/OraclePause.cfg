CONSTANTS MaxScript = 0 MaxPause = 0 MaxN = 99 Dev = {}
INIT FileInit
NEXT Stutter
INVARIANT JudgePause
CHECK_DEADLOCK FALSE
