CONSTANTS MaxScript = 0 MaxPause = 2 MaxN = 4 Dev = {}
INIT EnumInit
NEXT Next
INVARIANTS Complete NoHang
CHECK_DEADLOCK FALSE
