CONSTANTS MaxN = 3 Dev = {}
INIT EnumInitOpts
NEXT CaseNext
INVARIANT EmitCase
CHECK_DEADLOCK FALSE
