-------------------------- MODULE ExchangeOracle --------------------------
(* Binding B2: TLC as batch oracle.  The harness ran every case on the real code and wrote *)
(* case + observation lines; this module loads them as initial states and judges them:    *)
(*  - JudgeRef (at the initial state): against the reference definitions of C02/C03/C24   *)
(*  - JudgeImpl (at phase = "done" of the implementation-shaped spec with Dev = the code's *)
(*    deviations): does the model with the named deviations predict exactly this           *)
(*    observation, and which deviations did its behaviour exercise?                        *)
EXTENDS Exchange, Json, IOUtils
VARIABLE caseNo
Cases == ndJsonDeserialize(IOEnv.VERIF_CASES)
ToSet(s) == { s[k] : k \in 1..Len(s) }
ovars == <<vars, caseNo>>
RECURSIVE SetToSeqS(_)
SetToSeqS(S) == IF S = {} THEN <<>> ELSE LET m == CHOOSE x \in S : TRUE IN <<m>> \o SetToSeqS(S \ {m})

FileInit ==
  /\ caseNo \in 1..Len(Cases)
  /\ LET c == Cases[caseNo].case IN
     /\ N = c.n /\ par = c.par /\ dep = c.dep /\ cid = c.cid
     /\ Sl0 = ToSet(c.sl) /\ Sr = ToSet(c.sr) /\ userSkip = c.userSkip
     /\ ignore = ToSet(c.ignore) /\ keyed = c.keyed
     /\ adv = c.adv /\ script = c.script
  /\ RunInit
Stutter == UNCHANGED ovars
ImplNext == Next /\ UNCHANGED caseNo

Obs == Cases[caseNo].obs
WireOf(items) == [k \in 1..Len(items) |-> [c |-> items[k].c, act |-> (IF items[k].followed THEN "p" ELSE "m"), blk |-> items[k].blk]]

\* the responder answered with a failure status because it lacks the root: C02's reference does not apply (C03/C04 do)
RootRefused == cid[1] \notin Sr /\ RefNeedsNetwork
\* caller-supplied extensions that claim blocks the caller does not hold are outside C02's quantifier
NA02 == RootRefused \/ ~Truthful
IsPrefixSeq(a, b) == Len(a) <= Len(b) /\ SubSeq(b, 1, Len(a)) = a
C02OK == \/ NA02
         \/ /\ Obs.delivered = SetToSeq(RefDelivered)
            /\ ToSet(Obs.missing) = RefErrs
            /\ Obs.otherErrs = <<>>
            /\ ToSet(Obs.store) = RefStore
            /\ Obs.nodesOK /\ ~Obs.hang
C03OK == IF ~Obs.reqSent THEN Obs.wire = <<>>
         ELSE IF Obs.cancelSent       \* the requestor gave up: what was sent until then must still be right
              THEN IsPrefixSeq(Obs.wire, WireOf(RespItems(Obs.reqSkip))) /\ Obs.status \in {"", "cancelled", RespStatus}
         ELSE /\ Obs.wire = WireOf(RespItems(Obs.reqSkip))
              /\ Obs.status = RespStatus
C24OK == /\ Obs.reqSent = RefNeedsNetwork
         /\ ~RefNeedsNetwork => Obs.reqMsgs = 0
         /\ Obs.reqSent => Obs.reqSkip = RefSkip
         /\ \A k \in 1..Len(Obs.wire) : Obs.wire[k].blk =>
               /\ k > Obs.reqSkip /\ Obs.wire[k].c \notin ignore
               /\ ~ \E k2 \in 1..(k-1) : Obs.wire[k2].blk /\ Obs.wire[k2].c = Obs.wire[k].c
JudgeRef == PrintT(ToJson([id |-> Cases[caseNo].case.id, c02 |-> C02OK, c03 |-> C03OK, c24 |-> C24OK, na02 |-> NA02]))

\* ---------------------------------------------------------------- C07: link budgets
\* The enforcing peer makes link visits in its traversal order; a visit whose block is unavailable
\* still uses up budget in go-ipld-prime.  "Blocks the traversal needs" is read as link visits when
\* judging (reading A) or as blocks actually loaded (reading L); a run is accepted if it satisfies
\* the statement under either reading (they coincide whenever every visited block is available).
Case == Cases[caseNo].case
Budget == Case.budget
OnRequestor == Case.where \in {"reqG", "reqH", "reqGH", "reqHG"}
ReqVisits == Cardinality({ i \in V : RefVisit(i) })           \* link visits of the requestor's traversal
ReqLoadsNeeded == Cardinality(RefDelivered)
RespVisits == Len(RespReached)
RespLoadsNeeded == Cardinality({ i \in V : RespReach(i) /\ cid[i] \in Sr })
ObsLoaded == Len(Obs.delivered)
ObsAttempts == Len(Obs.delivered) + Len(Obs.missing)
WirePresent == Cardinality({ k \in 1..Len(Obs.wire) : Obs.wire[k].act = "p" })
C07Req ==
  \/ /\ ~Obs.budgetErr /\ (ReqVisits <= Budget \/ ReqLoadsNeeded <= Budget)          \* enough budget: no budget failure (the result itself is C02's)
     /\ ObsLoaded <= Budget
  \/ /\ Obs.budgetErr /\ ReqVisits > Budget /\ ObsAttempts = Budget /\ ObsLoaded <= Budget   \* reading A
  \/ /\ Obs.budgetErr /\ ReqLoadsNeeded > Budget /\ ObsLoaded = Budget                       \* reading L
  \/ /\ RootRefused /\ ~Obs.budgetErr /\ ObsLoaded <= Budget      \* the responder's content-not-found ended the request first
C07Resp ==
  IF ~Obs.reqSent THEN ~Obs.budgetErr
  ELSE \/ /\ Obs.status = RespStatus /\ (RespVisits <= Budget \/ RespLoadsNeeded <= Budget)
          /\ Len(Obs.wire) = RespVisits
       \/ /\ Obs.status = "failed" /\ RespVisits > Budget /\ Len(Obs.wire) = Budget /\ WirePresent <= Budget
       \/ /\ Obs.status = "failed" /\ RespLoadsNeeded > Budget /\ WirePresent = Budget
\* C02's recorded finding (the skip count is counted in the requestor's loaded blocks and applied to the responder's visits): when
\* the two differ the exchange loses blocks whatever the budget is, so the budget statement is not judged on such a case
FirstMiss == CHOOSE x \in LocalMisses : \A y \in LocalMisses : x <= y
SkipMismatch == /\ LocalMisses # {}
                /\ LET loadedLocally == { i \in 1..(FirstMiss - 1) : LocalVisit(i) }
                       skipped == { RespReached[k] : k \in 1..(IF RefSkip < Len(RespReached) THEN RefSkip ELSE Len(RespReached)) }
                   IN skipped # loadedLocally
C07OK == ~Obs.hang /\ (SkipMismatch \/ IF OnRequestor THEN C07Req ELSE C07Resp)
JudgeBudget == PrintT(ToJson([id |-> Case.id, c07 |-> C07OK, na07 |-> SkipMismatch]))

\* ---------------------------------------------------------------- C01: soundness under any responder
Labels == { cid[i] : i \in V }
DeliveredSet == ToSet(Obs.delivered)
C01OK == /\ ~Obs.badHash
         \* only genuine blocks of visits the traversal can have reached (the root, or a child of a block the requestor holds),
         \* never foreign ones.  (A block can be stored an instant before the request ends with an error, so that its nodes
         \* are no longer delivered: stored is not required to imply delivered, delivered is required to imply stored.)
         /\ ToSet(Obs.writes) \subseteq { cid[i] : i \in { j \in V : j = 1 \/ cid[par[j]] \in ToSet(Obs.store) } }
         /\ ToSet(Obs.store) \subseteq Sl0 \cup { cid[i] : i \in { j \in V : j = 1 \/ cid[par[j]] \in ToSet(Obs.store) } }
         /\ \A k \in 1..Len(Obs.delivered) : LET i == Obs.delivered[k] IN i \in V /\ (i = 1 \/ par[i] \in DeliveredSet)
         /\ \A k \in 1..(Len(Obs.delivered) - 1) : Obs.delivered[k] < Obs.delivered[k+1]
         /\ Obs.nodesPrefixOK
         /\ \A i \in DeliveredSet : cid[i] \in ToSet(Obs.store)
JudgeSound == PrintT(ToJson([id |-> Case.id, c01 |-> C01OK]))

\* ---------------------------------------------------------------- C06: pause and resume
\* the paused run must give what the uninterrupted run of the same case gave (attached as `baseline`), and a paused
\* response must not put block data on the wire
Base == Cases[caseNo].baseline
C06OK == /\ Obs.delivered = Base.delivered /\ ToSet(Obs.missing) = ToSet(Base.missing)
         /\ (Obs.otherErrs = <<>>) = (Base.otherErrs = <<>>) /\ ToSet(Obs.store) = ToSet(Base.store)
         /\ Obs.nodesOK = Base.nodesOK /\ Obs.hang = Base.hang
         /\ Obs.blocksWhilePaused = 0
JudgePause == PrintT(ToJson([id |-> Case.id, c06 |-> C06OK, took |-> Obs.pauseTook]))

ImplMatches == /\ Obs.delivered = delivered
               /\ ToSet(Obs.missing) = errs
               /\ (Obs.otherErrs = <<>>) = (fatal \in {"none", "hang"})
               /\ ToSet(Obs.store) = store
               /\ Obs.hang = (fatal = "hang")
JudgeImpl == phase = "done" => PrintT(ToJson([id |-> Cases[caseNo].case.id, match |-> ImplMatches, dev |-> SetToSeqS(devUsed), fatal |-> fatal]))
=============================================================================
