CONSTANTS MaxN = 99 Dev = {}
INIT FileInit
NEXT Stutter
INVARIANT JudgeBudget
CHECK_DEADLOCK FALSE
