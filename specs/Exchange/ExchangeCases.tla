--------------------------- MODULE ExchangeCases ---------------------------
(* Emits every initial state (= case: link tree, labeling, store split) of Exchange as one *)
(* JSON line; the harness realises each as real blocks and runs the real exchange.         *)
EXTENDS Exchange, Json
CaseNext == UNCHANGED vars
EmitCase == PrintT(ToJson([n |-> N, par |-> par, dep |-> dep, cid |-> cid, sl |-> SetToSeq(Sl0), sr |-> SetToSeq(Sr), userSkip |-> userSkip, ignore |-> SetToSeq(ignore), keyed |-> keyed]))
=============================================================================
