--------------------------- MODULE ExchangeCases ---------------------------
(* Emits every initial state (= case: link tree, labeling, store split) of Exchange as one *)
(* JSON line; the harness realises each as real blocks and runs the real exchange.         *)
EXTENDS Exchange, Json
CaseNext == UNCHANGED vars
EmitCase == PrintT(ToJson([n |-> N, par |-> par, dep |-> dep, cid |-> cid, sl |-> SetToSeq(Sl0), sr |-> SetToSeq(Sr), userSkip |-> userSkip, ignore |-> SetToSeq(ignore), keyed |-> keyed, adv |-> adv, script |-> script]))
\* C07: every budget 1..N+2 at every place a budget can be configured
Placements == {"reqG", "reqH", "reqGH", "reqHG", "respG", "respH", "respGH", "respHG"}
EmitBudgetCases == \A b \in 1..(N+2), w \in Placements :
  PrintT(ToJson([n |-> N, par |-> par, dep |-> dep, cid |-> cid, sl |-> SetToSeq(Sl0), sr |-> SetToSeq(Sr), userSkip |-> 0,
                 ignore |-> <<>>, keyed |-> FALSE, adv |-> FALSE, script |-> <<>>, budget |-> b, where |-> w]))
\* budget cases: plain link depths, requestor empty or full, responder full or lacking one block
BudgetInit ==
  /\ EnumInit
  /\ \A i \in 2..N : dep[i] = dep[par[i]] + 1
  /\ LET L == { cid[i] : i \in 1..N } IN
     /\ Sl0 \in {{}, L} \cup { L \ {l} : l \in L }
     /\ Sr \in {L} \cup { L \ {l} : l \in L }
=============================================================================
