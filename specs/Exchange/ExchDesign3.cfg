CONSTANTS MaxScript = 0 MaxPause = 0 MaxN = 3 Dev = {}
INIT EnumInit
NEXT Next
INVARIANTS Complete Thrifty NoRetransmit NoHang
CHECK_DEADLOCK FALSE
