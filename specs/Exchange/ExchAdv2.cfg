CONSTANTS MaxScript = 2 MaxPause = 0 MaxN = 3 Dev = {}
INIT AdvInit
NEXT Next
INVARIANTS Sound
CHECK_DEADLOCK FALSE
