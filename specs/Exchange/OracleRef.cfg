CONSTANTS MaxScript = 0 MaxPause = 0 MaxN = 9 Dev = {}
INIT FileInit
NEXT Stutter
INVARIANT JudgeRef
CHECK_DEADLOCK FALSE
