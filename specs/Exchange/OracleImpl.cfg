CONSTANTS MaxScript = 0 MaxPause = 0 MaxN = 9 Dev = {"PathLen", "SkipCount"}
INIT FileInit
NEXT ImplNext
INVARIANT JudgeImpl
CHECK_DEADLOCK FALSE
