CONSTANTS MaxScript = 2 MaxPause = 0 MaxN = 3 Dev = {}
INIT AdvInit
NEXT CaseNext
INVARIANT EmitCase
CHECK_DEADLOCK FALSE
