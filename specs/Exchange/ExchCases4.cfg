CONSTANTS MaxScript = 0 MaxPause = 0 MaxN = 4 Dev = {}
INIT EnumInit
NEXT CaseNext
INVARIANT EmitCase
CHECK_DEADLOCK FALSE
