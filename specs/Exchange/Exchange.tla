------------------------------ MODULE Exchange ------------------------------
(* One GraphSync request between a requestor and a cooperative responder, at the level of  *)
(* link visits.  Inputs: a link tree (visits 1..N in traversal order with parent, path     *)
(* length and block label), the requestor's store Sl0 and the responder's store Sr.        *)
(*   - reference semantics of C02 (Ref), C03 (RespOutput), C24 (request/skip rule)        *)
(*   - the requestor algorithm as implemented (executor.traverse + reconciledloader:       *)
(*     traversal record, verifier replay, remote queue, path tracker, retry of last load)  *)
(*   - named deviations Dev: places where the code knowingly differs from the design.      *)
(* Dev = {} is the intended design: TLC shows Complete for every tree/labeling/split.      *)
EXTENDS Naturals, Sequences, FiniteSets, TLC
CONSTANTS MaxN,      \* link trees with 1..MaxN visits (enumerating Init)
          Dev,       \* subset of {"PathLen", "SkipCount", "StaleQueueOnResume", "InFlightOldIncarnation"}
          MaxScript, \* adversarial responder: scripts of up to MaxScript items
          MaxPause   \* the requestor pauses and resumes the request up to MaxPause times (C06)

None == [c |-> 0, followed |-> FALSE, blk |-> FALSE]
NoRecent == [v |-> 0, ok |-> FALSE, usedRemote |-> FALSE]

VARIABLES N, par, dep, cid, Sl0, Sr, userSkip,       \* the case (never changes)
  ignore,    \* do-not-send-cids supplied by the caller (labels)
  keyed,     \* the request carries a dedup-by-key extension (no effect on a single request)
  adv,       \* the responder is adversarial: it answers with `script` whatever it holds
  script,    \* sequence of [c, followed, blk]; c = N+1 is a block foreign to the DAG
  st,        \* [V -> {"todo","ok","fail"}] requestor traversal status per visit
  store,     \* requestor's local store (labels)
  rec,       \* traversal record: sequence of [v, ok]
  recent,    \* most recent load attempt, not yet recorded
  rq,        \* remote queue: sequence of [c, followed, blk]
  lastc,     \* last consumed remote item (block stripped) -- retryLast
  online,    \* loader open
  ver,       \* verifier position in rec (0 = none)
  unf,       \* path tracker: visit whose path is the last unfollowed remote path (0 = none)
  reqSent,   \* a request was sent in this run of the executor
  reqSkip,   \* do-not-send-first-blocks value carried by the request (observable, C24)
  wire,      \* responder items in flight
  wireAll,   \* ghost: everything the responder put on the wire (C03, C24)
  respLive, errs, delivered, fatal, phase,
  devUsed,   \* ghost: deviations whose code path differed from the design in this behaviour
  paused,    \* the requestor has paused the request: its executor is not running
  npause     \* pauses so far

caseVars == <<N, par, dep, cid, Sl0, Sr, userSkip, ignore, keyed, adv, script>>
vars == <<N, par, dep, cid, Sl0, Sr, userSkip, ignore, keyed, adv, script, st, store, rec, recent, rq, lastc, online, ver, unf, reqSent, reqSkip,
          wire, wireAll, respLive, errs, delivered, fatal, phase, devUsed, paused, npause>>
V == 1..N

RECURSIVE Anc(_, _, _)
Anc(p, i, u) == IF i = 0 THEN FALSE ELSE IF p[i] = u THEN TRUE ELSE Anc(p, p[i], u)   \* u proper ancestor of i
AncOrSelf(p, i, u) == i = u \/ Anc(p, i, u)
RECURSIVE SetToSeq(_)
SetToSeq(S) == IF S = {} THEN <<>> ELSE LET m == CHOOSE x \in S : \A y \in S : x <= y IN <<m>> \o SetToSeq(S \ {m})
Kids(n, p, i) == SetToSeq({ j \in 1..n : p[j] = i })
MaxOf(S) == CHOOSE m \in S : \A x \in S : x <= m

\* ---------------------------------------------------------------- well-formed link trees
RECURSIVE SameShape(_, _, _, _, _, _)
SameShape(n, p, d, c, i, j) ==
  LET ki == Kids(n, p, i) kj == Kids(n, p, j) IN
  /\ Len(ki) = Len(kj)
  /\ \A k \in 1..Len(ki) : /\ c[ki[k]] = c[kj[k]]
                           /\ d[ki[k]] - d[i] = d[kj[k]] - d[j]
                           /\ SameShape(n, p, d, c, ki[k], kj[k])
ParOK(n, p) == /\ p[1] = 0 /\ \A i \in 2..n : p[i] \in 1..(i-1)
               /\ \A i \in 2..n : AncOrSelf(p, i-1, p[i])                 \* preorder numbering
DepOK(n, p, d) == d[1] = 0 /\ \A i \in 2..n : d[i] > d[p[i]] /\ d[i] <= d[p[i]] + 2
CidOK(n, p, d, c) ==
  /\ c[1] = 1
  /\ \A i \in 2..n : /\ c[i] <= 1 + MaxOf({ c[j] : j \in 1..(i-1) })      \* labels by first use
                     /\ ~ \E u \in 1..n : Anc(p, i, u) /\ c[u] = c[i]     \* a DAG has no cycles
  /\ \A i, j \in 1..n : c[i] = c[j] => SameShape(n, p, d, c, i, j)        \* same block, same links
WellFormed == ParOK(N, par) /\ DepOK(N, par, dep) /\ CidOK(N, par, dep, cid)

\* ---------------------------------------------------------------- reference semantics
RECURSIVE RespReach(_)
RespReach(i) == IF i = 1 THEN TRUE ELSE RespReach(par[i]) /\ cid[par[i]] \in Sr
RespReachedSet == { i \in V : RespReach(i) }
RespPos(i) == Cardinality({ j \in RespReachedSet : j <= i })        \* position of visit i in the responder's own traversal
\* the responder supplies the block of visit i: it reaches it, holds it, and the caller's own extensions do not exclude it
\* (a block whose first visit fell into the skipped prefix counts as already held by the requestor: it is not sent later either)
Supplies(i) == /\ RespReach(i) /\ cid[i] \in Sr /\ cid[i] \notin ignore /\ RespPos(i) > userSkip
               /\ ~ \E j \in RespReachedSet : j < i /\ cid[j] = cid[i]
RECURSIVE RefLoad(_), RefVisit(_), RefStoreBefore(_)
RefVisit(i) == IF i = 1 THEN TRUE ELSE RefVisit(par[i]) /\ RefLoad(par[i])
RefStoreBefore(i) == Sl0 \cup { cid[j] : j \in { k \in 1..(i-1) : RefVisit(k) /\ RefLoad(k) } }
RefLoad(i) == RefVisit(i) /\ ( cid[i] \in RefStoreBefore(i) \/ Supplies(i) )
RefDelivered == { i \in V : RefLoad(i) }                    \* C02: delivered, in visit order
RefErrs == { i \in V : RefVisit(i) /\ ~RefLoad(i) }         \* C02: exactly the missing-block errors
RefStore == Sl0 \cup { cid[i] : i \in RefDelivered }        \* C02: everything obtained is stored
\* C24: a requestor that holds everything sends nothing; otherwise skip = blocks loaded before the first miss
RECURSIVE LocalVisit(_)
LocalVisit(i) == IF i = 1 THEN TRUE ELSE LocalVisit(par[i]) /\ cid[par[i]] \in Sl0
LocalMisses == { i \in V : LocalVisit(i) /\ cid[i] \notin Sl0 }
RefNeedsNetwork == LocalMisses # {}
RefSkip == IF LocalMisses = {} THEN 0
           ELSE LET m == CHOOSE x \in LocalMisses : \A y \in LocalMisses : x <= y
                    loaded == Cardinality({ i \in 1..(m-1) : LocalVisit(i) }) IN
                IF userSkip > loaded THEN userSkip ELSE loaded

\* the caller's extensions are truthful: it holds what it says it holds
LocalPrefix == IF LocalMisses = {} THEN Cardinality({ i \in V : LocalVisit(i) })
               ELSE LET m == CHOOSE x \in LocalMisses : \A y \in LocalMisses : x <= y IN Cardinality({ i \in 1..(m-1) : LocalVisit(i) })
Truthful == ignore \subseteq Sl0 /\ userSkip <= LocalPrefix

\* C03: what an honest responder emits for the request: one item per visit it reaches, in order;
\* block data iff present, past the skipped prefix (counted in visits) and not sent before
RespReached == SetToSeq({ i \in V : RespReach(i) })
RespItems(skip) ==
  [ k \in 1..Len(RespReached) |->
      LET i == RespReached[k] present == cid[i] \in Sr IN
      [ c |-> cid[i], followed |-> present,
        blk |-> present /\ k > skip /\ cid[i] \notin ignore /\ ~ \E k2 \in 1..(k-1) : cid[RespReached[k2]] = cid[i] ] ]
RespStatus == IF cid[1] \notin Sr THEN "notfound"
              ELSE IF \E i \in V : RespReach(i) /\ cid[i] \notin Sr THEN "partial" ELSE "full"

\* ---------------------------------------------------------------- requestor as implemented
Visited(i) == i = 1 \/ st[par[i]] = "ok"
Todo == { i \in V : st[i] = "todo" /\ Visited(i) }
NextVisit == IF Todo = {} THEN 0 ELSE CHOOSE m \in Todo : \A y \in Todo : m <= y
NBlocks == Cardinality({ i \in V : st[i] = "ok" })
VerDone == ver = 0 \/ ver > Len(rec)
NextPtr(k, followed) ==
  IF followed THEN k + 1
  ELSE LET later == { m \in (k+1)..Len(rec) : ~Anc(par, rec[m].v, rec[k].v) } IN
       IF later = {} THEN Len(rec) + 1 ELSE CHOOSE m \in later : \A y \in later : m <= y

RunInit ==
  /\ st = [i \in V |-> "todo"] /\ store = Sl0 /\ rec = <<>> /\ recent = NoRecent
  /\ rq = <<>> /\ lastc = None /\ online = FALSE /\ ver = 0 /\ unf = 0 /\ reqSent = FALSE /\ reqSkip = 0
  /\ wire = <<>> /\ wireAll = <<>> /\ respLive = FALSE /\ errs = {} /\ delivered = <<>> /\ fatal = "none"
  /\ phase = "run" /\ devUsed = {} /\ paused = FALSE /\ npause = 0

EnumInit ==
  /\ N \in 1..MaxN
  /\ par \in [1..N -> 0..N] /\ ParOK(N, par)
  /\ dep \in [1..N -> 0..(2*N)] /\ DepOK(N, par, dep)
  /\ cid \in [1..N -> 1..N] /\ CidOK(N, par, dep, cid)
  /\ Sl0 \in SUBSET { cid[i] : i \in 1..N } /\ Sr \in SUBSET { cid[i] : i \in 1..N }
  /\ userSkip = 0 /\ ignore = {} /\ keyed = FALSE /\ adv = FALSE /\ script = <<>>
  /\ RunInit

\* the same cases with every combination of the caller-supplied extensions
EnumInitOpts ==
  /\ N \in 1..MaxN
  /\ par \in [1..N -> 0..N] /\ ParOK(N, par)
  /\ dep \in [1..N -> 0..(2*N)] /\ DepOK(N, par, dep) /\ \A i \in 2..N : dep[i] = dep[par[i]] + 1
  /\ cid \in [1..N -> 1..N] /\ CidOK(N, par, dep, cid)
  /\ Sl0 \in SUBSET { cid[i] : i \in 1..N } /\ Sr \in SUBSET { cid[i] : i \in 1..N }
  /\ userSkip \in 0..(N+1) /\ ignore \in SUBSET { cid[i] : i \in 1..N } /\ keyed \in BOOLEAN /\ adv = FALSE /\ script = <<>>
  /\ RunInit

\* C01: any link tree and local store, any script of metadata/blocks a responder may send
Alphabet(n, c) == { [c |-> x, followed |-> f, blk |-> b] : x \in { c[i] : i \in 1..n } \cup {n + 1}, f \in BOOLEAN, b \in BOOLEAN }
AdvInit ==
  /\ N \in 1..MaxN
  /\ par \in [1..N -> 0..N] /\ ParOK(N, par)
  /\ dep \in [1..N -> 0..(2*N)] /\ DepOK(N, par, dep) /\ \A i \in 2..N : dep[i] = dep[par[i]] + 1
  /\ cid \in [1..N -> 1..N] /\ CidOK(N, par, dep, cid)
  /\ Sl0 \in SUBSET { cid[i] : i \in 1..N } /\ Sr = {}
  /\ userSkip = 0 /\ ignore = {} /\ keyed = FALSE /\ adv = TRUE
  /\ script \in UNION { [1..k -> Alphabet(N, cid)] : k \in 0..MaxScript }
  /\ RunInit

Fatal(msg) == /\ fatal' = msg /\ phase' = "done"

\* waitRemote: replay of the traversal record against new remote metadata
VerifyStep ==
  /\ phase = "run" /\ ~paused /\ NextVisit # 0 /\ rq # <<>> /\ ~VerDone
  /\ LET head == rq[1] nx == rec[ver] IN
     /\ rq' = Tail(rq) /\ lastc' = [head EXCEPT !.blk = FALSE]
     /\ IF cid[nx.v] # head.c THEN Fatal("verify-mismatch") /\ UNCHANGED <<ver, unf>>
        ELSE IF ~nx.ok /\ head.followed THEN Fatal("verify-additional") /\ UNCHANGED <<ver, unf>>
        ELSE /\ ver' = NextPtr(ver, head.followed)
             /\ unf' = IF ~head.followed THEN nx.v ELSE unf
             /\ UNCHANGED <<fatal, phase>>
  /\ UNCHANGED <<caseVars, st, store, rec, recent, online, reqSent, reqSkip, wire, wireAll, respLive, errs, delivered, devUsed, paused, npause>>

\* pathtracker.stillOnUnfollowedRemotePath: <<answer, tracker after, deviated?>>
StillOn(i) ==
  IF unf = 0 \/ dep[unf] = 0 THEN <<FALSE, unf, FALSE>>
  ELSE LET design == IF Anc(par, i, unf) THEN <<TRUE, unf>> ELSE <<FALSE, 0>>          \* prefix test
           code   == IF dep[i] <= dep[unf] THEN <<FALSE, 0>> ELSE <<TRUE, unf>>        \* length test
       IN IF "PathLen" \in Dev THEN <<code[1], code[2], code # design>> ELSE <<design[1], design[2], FALSE>>

\* one iteration of executor.traverse: BlockReadOpener, first-miss handling, advance
LoadStep ==
  /\ phase = "run" /\ ~paused /\ NextVisit # 0
  /\ (rq # <<>> /\ VerDone) \/ (rq = <<>> /\ ~online)
  /\ LET i == NextVisit
         rec1 == IF recent.v # 0 THEN Append(rec, [v |-> recent.v, ok |-> recent.ok]) ELSE rec
         useRemote == rq # <<>>
         ver1 == IF rq # <<>> /\ VerDone THEN 0 ELSE ver
         so == StillOn(i)
         takeHead == useRemote /\ ~so[1]
         head == IF takeHead THEN rq[1] ELSE None
         mismatch == takeHead /\ head.c # cid[i]
         unf1 == IF ~useRemote THEN unf ELSE IF takeHead /\ ~mismatch /\ ~head.followed THEN i ELSE so[2]
         gotRemote == takeHead /\ ~mismatch /\ head.blk
         ok == gotRemote \/ cid[i] \in store
         dev1 == IF useRemote /\ so[3] THEN devUsed \cup {"PathLen"} ELSE devUsed
     IN
     IF mismatch THEN
        /\ Fatal("load-mismatch") /\ rq' = Tail(rq) /\ lastc' = [head EXCEPT !.blk = FALSE]
        /\ rec' = rec1 /\ recent' = [v |-> i, ok |-> FALSE, usedRemote |-> TRUE]
        /\ ver' = ver1 /\ devUsed' = dev1
        /\ UNCHANGED <<st, store, online, unf, reqSent, reqSkip, wire, wireAll, respLive, errs, delivered>>
     ELSE IF ~ok /\ ~reqSent THEN
        \* first miss of this run: loader online, send the request, retry the last load
        /\ reqSent' = TRUE /\ online' = TRUE
        /\ rec' = rec1
        /\ ver' = IF Len(rec1) > 0 THEN 1 ELSE 0
        /\ \E nOld \in (IF "InFlightOldIncarnation" \in Dev /\ npause > 0 THEN 0..Len(wireAll) ELSE {0}),
              lost \in (IF "InFlightOldIncarnation" \in Dev /\ npause > 0 THEN BOOLEAN ELSE {FALSE}) :
           LET oldSent == { wireAll[j].c : j \in { jj \in 1..nOld : wireAll[jj].blk } }
               loaded == NBlocks
               sk == IF userSkip > loaded THEN userSkip ELSE loaded
               items0 == IF adv THEN script ELSE RespItems(IF "SkipCount" \in Dev THEN sk ELSE userSkip)
               \* a request sent right after the cancel of its previous incarnation can reach the responder while that incarnation is
               \* still being torn down (same request id): blocks it had already sent to this peer are then not sent again
               items == [k \in 1..Len(items0) |-> [items0[k] EXCEPT !.blk = @ /\ items0[k].c \notin oldSent]]
               \* what is still in flight from an incarnation the requestor cancelled (pause) cannot be told from the new response
               \* by the code; the design discards it
               oldWire == IF "InFlightOldIncarnation" \in Dev THEN wire ELSE <<>>
               rqAfter == IF takeHead THEN Tail(rq) ELSE rq
               lcAfter == IF takeHead THEN [head EXCEPT !.blk = FALSE] ELSE lastc
               \* RetryLastLoad puts the last consumed item back; after a pause that item and the rest of the queue belong to the
               \* cancelled incarnation: the code keeps them, the design starts the new incarnation with an empty queue
               rqCode == IF useRemote /\ lcAfter # None THEN <<lcAfter>> \o rqAfter ELSE rqAfter
           IN /\ reqSkip' = sk
              \* ... or the responder drops the new request together with the old one and never answers (lost)
              /\ wire' = (IF lost THEN oldWire ELSE oldWire \o items) /\ wireAll' = items /\ respLive' = ~lost
              /\ rq' = IF "StaleQueueOnResume" \in Dev THEN rqCode ELSE <<>>
              /\ lastc' = IF "StaleQueueOnResume" \in Dev THEN lcAfter ELSE None
              /\ devUsed' = (IF "SkipCount" \in Dev /\ items # RespItems(userSkip)
                                 /\ \E k \in 1..Len(items) : items[k].blk # RespItems(userSkip)[k].blk /\ items[k].c \notin store
                             THEN dev1 \cup {"SkipCount"} ELSE dev1)
                            \cup (IF "StaleQueueOnResume" \in Dev /\ rqCode # <<>> THEN {"StaleQueueOnResume"} ELSE {})
                            \cup (IF "InFlightOldIncarnation" \in Dev /\ (wire # <<>> \/ lost \/ items # items0) THEN {"InFlightOldIncarnation"} ELSE {})
        /\ recent' = NoRecent
        /\ unf' = unf1
        /\ UNCHANGED <<st, store, errs, delivered, fatal, phase>>
     ELSE
        /\ rec' = rec1
        /\ recent' = [v |-> i, ok |-> ok, usedRemote |-> useRemote]
        /\ rq' = IF takeHead THEN Tail(rq) ELSE rq
        /\ lastc' = IF takeHead THEN [head EXCEPT !.blk = FALSE] ELSE lastc
        /\ unf' = unf1
        /\ store' = IF gotRemote THEN store \cup {cid[i]} ELSE store
        /\ st' = [st EXCEPT ![i] = IF ok THEN "ok" ELSE "fail"]
        /\ errs' = IF ok THEN errs ELSE errs \cup {i}
        /\ delivered' = IF ok THEN Append(delivered, i) ELSE delivered
        /\ ver' = ver1 /\ devUsed' = dev1
        /\ UNCHANGED <<online, reqSent, reqSkip, wire, wireAll, respLive, fatal, phase>>
  /\ UNCHANGED <<caseVars, paused, npause>>

\* network: the responder's items arrive in any chunking (dropped when the loader is offline)
Ingest ==
  /\ wire # <<>>
  /\ \E k \in 1..Len(wire) :
       /\ wire' = SubSeq(wire, k+1, Len(wire))
       /\ rq' = IF online THEN rq \o SubSeq(wire, 1, k) ELSE rq
  /\ UNCHANGED <<caseVars, st, store, rec, recent, lastc, online, ver, unf, reqSent, reqSkip, wireAll, respLive, errs, delivered, fatal, phase, devUsed, paused, npause>>

\* terminal status processed: loader offline
Terminal ==
  /\ respLive /\ wire = <<>>
  /\ respLive' = FALSE /\ online' = FALSE
  /\ UNCHANGED <<caseVars, st, store, rec, recent, rq, lastc, ver, unf, reqSent, reqSkip, wire, wireAll, errs, delivered, fatal, phase, devUsed, paused, npause>>

Finish ==
  /\ phase = "run" /\ ~paused /\ NextVisit = 0
  /\ phase' = "done"
  /\ UNCHANGED <<caseVars, st, store, rec, recent, rq, lastc, online, ver, unf, reqSent, reqSkip, wire, wireAll, respLive, errs, delivered, fatal, devUsed, paused, npause>>

\* C06, requestor side.  A pause (API or incoming-block hook) takes effect when the executor has processed the result of a load
\* (executor.processResult): the executor sends a cancel and takes the loader offline; the traverser, the traversal record, the
\* remote queue and the path tracker are kept.  The responder stops somewhere: what it had not produced yet never appears.
Pause ==
  /\ phase = "run" /\ ~paused /\ npause < MaxPause /\ recent.v # 0 /\ NextVisit # 0
  /\ paused' = TRUE /\ npause' = npause + 1 /\ online' = FALSE /\ respLive' = FALSE
  /\ \E k \in 0..Len(wire) : wire' = SubSeq(wire, 1, k)
  /\ UNCHANGED <<caseVars, st, store, rec, recent, rq, lastc, ver, unf, reqSent, reqSkip, wireAll, errs, delivered, fatal, phase, devUsed>>
\* unpause: the task is queued again and a new run of the executor continues the same traversal; its first miss sends a new
\* request that asks the responder to leave out the blocks traversed so far
Resume ==
  /\ paused /\ paused' = FALSE /\ reqSent' = FALSE
  /\ UNCHANGED <<caseVars, st, store, rec, recent, rq, lastc, online, ver, unf, reqSkip, wire, wireAll, respLive, errs, delivered, fatal, phase, devUsed, npause>>

\* the requestor waits for a response that will never come (only reachable under InFlightOldIncarnation)
Hang ==
  /\ phase = "run" /\ ~paused /\ NextVisit # 0 /\ online /\ ~respLive /\ wire = <<>> /\ rq = <<>>
  /\ Fatal("hang")
  /\ UNCHANGED <<caseVars, st, store, rec, recent, rq, lastc, online, ver, unf, reqSent, reqSkip, wire, wireAll, respLive, errs, delivered, devUsed, paused, npause>>

Next == VerifyStep \/ LoadStep \/ Ingest \/ Terminal \/ Finish \/ Pause \/ Resume \/ Hang
Spec == EnumInit /\ [][Next]_vars

-----------------------------------------------------------------------------
Range(s) == { s[k] : k \in 1..Len(s) }
\* C02
Complete == (phase = "done" /\ Truthful) =>
   /\ fatal = "none"
   /\ delivered = SetToSeq(RefDelivered)
   /\ errs = RefErrs
   /\ store = RefStore
\* C24 (requestor side): nothing sent when nothing is needed; otherwise the skip value is the locally loaded prefix
Thrifty == phase = "done" => /\ reqSent = RefNeedsNetwork
                             /\ reqSent => reqSkip = RefSkip
\* C24 (responder side): never a block in the skipped prefix, never the same block twice
NoRetransmit == \A k \in 1..Len(wireAll) :
   wireAll[k].blk => /\ k > (IF "SkipCount" \in Dev THEN reqSkip ELSE userSkip)
                     /\ wireAll[k].c \notin ignore
                     /\ ~ \E k2 \in 1..(k-1) : wireAll[k2].blk /\ wireAll[k2].c = wireAll[k].c
\* C01: whatever the responder sends, only genuine blocks of visits the traversal reached are stored or delivered
Sound == /\ store \subseteq Sl0 \cup { cid[i] : i \in V }
         /\ store \ Sl0 \subseteq { cid[i] : i \in { j \in V : st[j] = "ok" } }
         /\ \A k \in 1..Len(delivered) : Visited(delivered[k]) /\ (cid[delivered[k]] \in store)
         /\ \A k \in 1..(Len(delivered) - 1) : delivered[k] < delivered[k+1]
\* a running request can always make a step (no hang)
NoHang == (phase = "run" /\ ~paused /\ NextVisit # 0) => ENABLED (VerifyStep \/ LoadStep \/ Ingest \/ Terminal)
=============================================================================
