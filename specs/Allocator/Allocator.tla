---------------------------- MODULE Allocator ----------------------------
(* Per-peer memory allocator of go-graphsync (allocator/allocator.go).                      *)
(* One action per public call; each call holds allocLk for its whole body, so it is atomic. *)
(* Properties: C13 (limits, exact accounting) and C14 (prompt, ordered grants).             *)
EXTENDS Naturals, Sequences, FiniteSets, TLC
CONSTANTS Peers, Amounts, MaxTotal, MaxPeer,
          MaxOps,    \* bound on history length (exhaustive configs)
          MaxPend    \* bound on waiting requests per peer

VARIABLES alloc,     \* [Peers -> Nat]  bytes currently granted to each peer
          pend,      \* sequence of waiting requests [peer, amt, id] in request order
          nextId,    \* id of the next AllocateBlockMemory call
          res,       \* res[id] \in {"granted","waiting","failed"} : resolution of call id's channel
          nops,
          granted, released   \* ghosts: [Peers -> Nat] bytes ever granted / given back

vars == <<alloc, pend, nextId, res, nops, granted, released>>

RECURSIVE SumOver(_, _)
SumOver(f, S) == IF S = {} THEN 0 ELSE LET p == CHOOSE x \in S : TRUE IN f[p] + SumOver(f, S \ {p})
Total == SumOver(alloc, Peers)

PendOf(p)  == SelectSeq(pend, LAMBDA e : e.peer = p)
HasPend(p) == \E i \in 1..Len(pend) : pend[i].peer = p
RemoveAt(s, i) == SubSeq(s, 1, i-1) \o SubSeq(s, i+1, Len(s))

Init == /\ alloc = [p \in Peers |-> 0] /\ pend = <<>> /\ nextId = 1 /\ res = <<>> /\ nops = 0
        /\ granted = [p \in Peers |-> 0] /\ released = [p \in Peers |-> 0]

(* The wake-up loop run after every release (processPendingAllocations): among the peers'  *)
(* head requests that fit their own per-peer limit take the earliest requested; grant it   *)
(* if it fits the total, else stop (head-of-line).  Returns <<alloc, pend, res, granted>>. *)
RECURSIVE Drain(_, _, _, _)
Drain(a, q, r, g) ==
  LET heads == { i \in 1..Len(q) : /\ \A j \in 1..(i-1) : q[j].peer # q[i].peer
                                   /\ a[q[i].peer] + q[i].amt <= MaxPeer }
  IN IF heads = {} THEN <<a, q, r, g>>
     ELSE LET i == CHOOSE x \in heads : \A y \in heads : x <= y
          IN IF SumOver(a, Peers) + q[i].amt > MaxTotal THEN <<a, q, r, g>>
             ELSE Drain([a EXCEPT ![q[i].peer] = @ + q[i].amt], RemoveAt(q, i),
                        [r EXCEPT ![q[i].id] = "granted"], [g EXCEPT ![q[i].peer] = @ + q[i].amt])

Allocate(p, n) ==
  /\ nops < MaxOps /\ nops' = nops + 1
  /\ nextId' = nextId + 1
  /\ UNCHANGED released
  /\ IF Total + n <= MaxTotal /\ alloc[p] + n <= MaxPeer /\ ~HasPend(p)
       THEN /\ alloc' = [alloc EXCEPT ![p] = @ + n]
            /\ granted' = [granted EXCEPT ![p] = @ + n]
            /\ res' = Append(res, "granted")
            /\ pend' = pend
       ELSE /\ Len(PendOf(p)) < MaxPend
            /\ pend' = Append(pend, [peer |-> p, amt |-> n, id |-> nextId])
            /\ res' = Append(res, "waiting")
            /\ UNCHANGED <<alloc, granted>>

Release(p, n) ==
  /\ nops < MaxOps /\ nops' = nops + 1
  /\ LET m == IF alloc[p] >= n THEN n ELSE alloc[p]          \* clamped: never below zero
         d == Drain([alloc EXCEPT ![p] = @ - m], pend, res, granted)
     IN /\ alloc' = d[1] /\ pend' = d[2] /\ res' = d[3] /\ granted' = d[4]
        /\ released' = [released EXCEPT ![p] = @ + m]
  /\ UNCHANGED nextId

ReleasePeer(p) ==
  /\ nops < MaxOps /\ nops' = nops + 1
  /\ LET q == SelectSeq(pend, LAMBDA e : e.peer # p)
         failed == { pend[i].id : i \in { j \in 1..Len(pend) : pend[j].peer = p } }
         r == [i \in 1..Len(res) |-> IF i \in failed THEN "failed" ELSE res[i]]
         d == Drain([alloc EXCEPT ![p] = 0], q, r, granted)
     IN /\ alloc' = d[1] /\ pend' = d[2] /\ res' = d[3] /\ granted' = d[4]
        /\ released' = [released EXCEPT ![p] = @ + alloc[p]]
  /\ UNCHANGED nextId

Next == \E p \in Peers : (\E n \in Amounts : Allocate(p, n) \/ Release(p, n)) \/ ReleasePeer(p)
Spec == Init /\ [][Next]_vars

-----------------------------------------------------------------------------
(* C13 *)
Limits == Total <= MaxTotal /\ \A p \in Peers : alloc[p] <= MaxPeer
Conservation == \A p \in Peers : alloc[p] + released[p] = granted[p]
PendTotal == LET RECURSIVE S(_) S(i) == IF i = 0 THEN 0 ELSE pend[i].amt + S(i-1) IN S(Len(pend))
AllReleasedZero ==   \* once everything is released and nothing un-grantable waits: zero and empty
  (\A p \in Peers : alloc[p] = 0) /\ (\A i \in 1..Len(pend) : pend[i].amt <= MaxPeer /\ pend[i].amt <= MaxTotal)
     => pend = <<>>
(* C14 *)
NoGrantableWaiting == Drain(alloc, pend, res, granted) = <<alloc, pend, res, granted>>
PendConsistent == /\ \A i \in 1..Len(pend) : res[pend[i].id] = "waiting"
                  /\ \A i \in 1..Len(res) : res[i] = "waiting" => \E j \in 1..Len(pend) : pend[j].id = i
(* grants of one step respect per-peer request order: what stays waiting for p is a suffix *)
IsSuffix(s, t) == Len(s) <= Len(t) /\ SubSeq(t, Len(t) - Len(s) + 1, Len(t)) = s
FifoPerPeer == [][\A p \in Peers :
                    \/ IsSuffix(SelectSeq(pend', LAMBDA e : e.peer = p), PendOf(p))
                    \/ \E e \in { [peer |-> p, amt |-> n, id |-> nextId] : n \in Amounts } :
                          SelectSeq(pend', LAMBDA x : x.peer = p) = Append(PendOf(p), e)]_vars
(* a resolved channel never changes again; waiting only resolves through a release *)
ResolutionStable == [][\A i \in 1..Len(res) : res[i] # "waiting" => res'[i] = res[i]]_vars
ReleasePeerClears == [][\A p \in Peers : (alloc'[p] = 0 /\ released'[p] = released[p] + alloc[p] /\ nextId' = nextId
                                           /\ Len(pend') < Len(pend) /\ ~ \E i \in 1..Len(pend') : pend'[i].peer = p)
                                         \/ TRUE]_vars
View == <<alloc, [i \in 1..Len(pend) |-> <<pend[i].peer, pend[i].amt>>]>>
=============================================================================
