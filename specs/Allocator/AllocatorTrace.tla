------------------------- MODULE AllocatorTrace -------------------------
(* Binding B3: histories recorded from the real allocator (vh alloc-trace) validated against *)
(* Allocator's actions; the module invariants are evaluated after every recorded call.       *)
EXTENDS Naturals, Sequences, FiniteSets, TLC, Json, IOUtils
CONSTANTS MaxTotal, MaxPeer, Peers
Amounts == 1..1000000
MaxOps == 100000000
MaxPend == 100000000
VARIABLES alloc, pend, nextId, res, nops, granted, released, l
A == INSTANCE Allocator

Trace == ndJsonDeserialize(IOEnv.VERIF_TRACE)
tvars == <<alloc, pend, nextId, res, nops, granted, released, l>>

\* the logged observation must equal the model's post-state and per-step resolutions
Obs(e) == /\ \A p \in Peers : alloc'[p] = e.alloc[p]
          /\ A!SumOver(alloc', Peers) = e.total
          /\ A!PendTotal' = e.pending
          /\ Cardinality({ pend'[i].peer : i \in 1..Len(pend') }) = e.npend
          /\ { i \in 1..Len(pend) : res'[pend[i].id] = "granted" } = { e.granted[i] : i \in 1..Len(e.granted) }
          /\ { i \in 1..Len(pend) : res'[pend[i].id] = "failed" } = { e.failed[i] : i \in 1..Len(e.failed) }

TraceInit == A!Init /\ l = 1
IsEv(o) == l <= Len(Trace) /\ Trace[l].op = o /\ l' = l + 1
TReset == /\ IsEv("reset") /\ alloc' = [p \in Peers |-> 0] /\ pend' = <<>> /\ nextId' = 1 /\ res' = <<>> /\ nops' = 0
          /\ granted' = [p \in Peers |-> 0] /\ released' = [p \in Peers |-> 0]
TAlloc == IsEv("alloc") /\ A!Allocate(Trace[l].p, Trace[l].n) /\ Obs(Trace[l]) /\ res'[nextId] = Trace[l].newRes
TRelease == IsEv("release") /\ A!Release(Trace[l].p, Trace[l].n) /\ Obs(Trace[l])
TReleasePeer == IsEv("releasepeer") /\ A!ReleasePeer(Trace[l].p) /\ Obs(Trace[l])
TraceNext == TReset \/ TAlloc \/ TRelease \/ TReleasePeer
TraceSpec == TraceInit /\ [][TraceNext]_tvars

Limits == A!Limits
Conservation == A!Conservation
NoGrantableWaiting == A!NoGrantableWaiting
PendConsistent == A!PendConsistent
AllReleasedZero == A!AllReleasedZero

\* acceptance: furthest line consumed (needs -workers 1)
HighWater == TLCSet(1, IF l > TLCGet(1) THEN l ELSE TLCGet(1))
Accepted == /\ PrintT(<<"HIGHWATER", TLCGet(1), Len(Trace)>>) /\ TLCGet(1) = Len(Trace) + 1
ASSUME TLCSet(1, 0)
=============================================================================
