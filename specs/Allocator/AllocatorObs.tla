--------------------------- MODULE AllocatorObs ---------------------------
(* Property-level judge for C13 on observations only: no allocator actions are assumed; the *)
(* state is whatever the real allocator reported.  Used to attribute a history rejected by *)
(* AllocatorTrace to C13 (accounting/limits broken) or C14 (grant timing/order broken).    *)
EXTENDS Naturals, Sequences, FiniteSets, TLC, Json, IOUtils
CONSTANTS MaxTotal, MaxPeer, Peers
Trace == ndJsonDeserialize(IOEnv.VERIF_TRACE)
VARIABLES oalloc, opend, og, orel, l, hist, bad
ovars == <<oalloc, opend, og, orel, l, hist, bad>>
RECURSIVE SumOver(_, _)
SumOver(f, S) == IF S = {} THEN 0 ELSE LET p == CHOOSE x \in S : TRUE IN f[p] + SumOver(f, S \ {p})
Zero == [p \in Peers |-> 0]
Init == oalloc = Zero /\ opend = <<>> /\ og = Zero /\ orel = Zero /\ l = 1 /\ hist = 0 /\ bad = {}
Idx(s) == { s[i] : i \in 1..Len(s) }
GrantedTo(e, p) == SumOver([i \in Idx(e.granted) |-> IF opend[i].peer = p THEN opend[i].amt ELSE 0], Idx(e.granted))
Min(a, b) == IF a < b THEN a ELSE b
Step ==
  /\ l <= Len(Trace) /\ l' = l + 1
  /\ LET e == Trace[l] IN
     IF e.op = "reset" THEN /\ oalloc' = Zero /\ opend' = <<>> /\ og' = Zero /\ orel' = Zero /\ hist' = hist + 1 /\ bad' = bad
     ELSE
       LET g2 == [p \in Peers |-> og[p] + GrantedTo(e, p)
                                   + (IF e.op = "alloc" /\ e.p = p /\ e.newRes = "granted" THEN e.n ELSE 0)]
           r2 == [p \in Peers |-> orel[p] + (IF e.p # p THEN 0
                                             ELSE IF e.op = "release" THEN Min(e.n, oalloc[p])
                                             ELSE IF e.op = "releasepeer" THEN oalloc[p] ELSE 0)]
           pAfter == e.pend
           problems ==
             (IF \E p \in Peers : e.alloc[p] > MaxPeer THEN {"per-peer limit exceeded"} ELSE {}) \cup
             (IF SumOver(e.alloc, Peers) > MaxTotal \/ e.total > MaxTotal THEN {"total limit exceeded"} ELSE {}) \cup
             (IF e.total # SumOver(e.alloc, Peers) THEN {"reported total is not the sum of per-peer totals"} ELSE {}) \cup
             (IF \E p \in Peers : e.alloc[p] + r2[p] # g2[p] THEN {"per-peer total is not granted minus released"} ELSE {}) \cup
             (IF e.op = "releasepeer" /\ (e.alloc[e.p] # 0 \/ \E i \in 1..Len(pAfter) : pAfter[i].peer = e.p)
                 THEN {"release of a peer left memory or waiting allocations"} ELSE {}) \cup
             (IF e.total = 0 /\ (\A i \in 1..Len(pAfter) : pAfter[i].amt <= MaxPeer /\ pAfter[i].amt <= MaxTotal) /\ e.pending # 0
                 THEN {"everything released but allocations still pending"} ELSE {}) \cup
             (IF e.pending # SumOver([i \in 1..Len(pAfter) |-> pAfter[i].amt], 1..Len(pAfter))
                 THEN {"reported pending total differs from waiting allocations"} ELSE {})
       IN /\ oalloc' = e.alloc /\ opend' = pAfter /\ og' = g2 /\ orel' = r2 /\ hist' = hist
          /\ bad' = bad \cup { [hist |-> hist, line |-> l, what |-> w] : w \in problems }
Next == Step
Done == l > Len(Trace)
Report == PrintT(ToJson([obsbad |-> bad]))
PrintWhenDone == Done => Report
=============================================================================
