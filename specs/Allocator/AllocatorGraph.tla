------------------------- MODULE AllocatorGraph -------------------------
(* Binding B1: the complete abstract state graph of Allocator, one JSON line per transition, *)
(* replayed edge by edge against the real allocator by `vh alloc-replay`.                   *)
EXTENDS Allocator, Json
VARIABLE act
gvars == <<vars, act>>
GInit == Init /\ act = [op |-> "init"]
GNext == \E p \in Peers :
           \/ \E n \in Amounts : \/ Allocate(p, n) /\ act' = [op |-> "alloc", p |-> p, n |-> n]
                                 \/ Release(p, n)  /\ act' = [op |-> "release", p |-> p, n |-> n]
           \/ ReleasePeer(p) /\ act' = [op |-> "releasepeer", p |-> p, n |-> 0]
PV(q) == [i \in 1..Len(q) |-> [peer |-> q[i].peer, amt |-> q[i].amt]]
GView == <<alloc, PV(pend)>>
\* positions (in the pre-state's waiting list) whose channel resolved in this step
Resolved(kind) == { i \in 1..Len(pend) : res'[pend[i].id] = kind }
Emit == PrintT(ToJson([ from |-> [alloc |-> alloc, pend |-> PV(pend)],
                        act  |-> act',
                        to   |-> [alloc |-> alloc', pend |-> PV(pend'), total |-> SumOver(alloc', Peers)],
                        grantedIdx |-> Resolved("granted"), failedIdx |-> Resolved("failed"),
                        newRes |-> IF act'.op = "alloc" THEN res'[nextId] ELSE "none" ]))
=============================================================================
