\* exhaustive, bounded history, ghosts included
CONSTANTS Peers = {"a", "b"}  Amounts = {1,2,3}  MaxTotal = 4  MaxPeer = 3  MaxOps = 7 MaxPend = 2
INIT Init
NEXT Next
INVARIANTS Limits Conservation NoGrantableWaiting PendConsistent AllReleasedZero
PROPERTIES FifoPerPeer ResolutionStable
CHECK_DEADLOCK FALSE
