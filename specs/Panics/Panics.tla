------------------------------- MODULE Panics -------------------------------
(* Where user-supplied per-request code runs, and which of those places sit inside a        *)
(* recovery boundary that turns a panic into an error of the request.                        *)
(*   traversal goroutine (ipldutil/traverser.go start): prototype chooser, codec (decoder),  *)
(*     node reifier, selector walk, visitor -- recover() -> RecoveredPanicErr + callback     *)
(*   responder query worker (queryexecutor loadBlock): storage read opener                   *)
(*   requestor executor worker (reconciledloader loadLocal / loadRemote): storage read       *)
(*     opener, storage write opener and its committer                                        *)
(* One request T (K blocks) gets a panic at its k-th call of one site on one side while a    *)
(* second request O runs next to it.  C22: the process survives, the panic callback is       *)
(* called, T ends with an error, O is unaffected.                                            *)
EXTENDS Naturals, Sequences, FiniteSets, TLC, Json
CONSTANTS K, Dev
Sides == {"req", "resp"}
Sites == {"chooser", "decoder", "reifier", "read", "write", "commit"}
\* which sites exist on which side (the responder never writes blocks)
Exists(side, site) == side = "req" \/ site \notin {"write", "commit"}
\* the goroutine a site is called in
Thread(side, site) == IF site \in {"chooser", "decoder", "reifier"} THEN "traversal" ELSE IF side = "req" THEN "executor-worker" ELSE "query-worker"
\* recovery boundaries of the code as found: only the traversal goroutine; design: every thread that runs per-request user code
Recovers(thread) == thread = "traversal" \/ "StorageOutsideRecovery" \notin Dev

VARIABLES side, site, at, phase, alive, callback, targetErr, otherOK
vars == <<side, site, at, phase, alive, callback, targetErr, otherOK>>
Init == /\ side \in Sides /\ site \in Sites /\ Exists(side, site) /\ at \in 1..K
        /\ phase = "running" /\ alive = TRUE /\ callback = 0 /\ targetErr = FALSE /\ otherOK = FALSE
Panic == /\ phase = "running"
         /\ IF Recovers(Thread(side, site))
            THEN alive' = TRUE /\ callback' = callback + 1 /\ targetErr' = TRUE /\ phase' = "recovered"
            ELSE alive' = FALSE /\ callback' = callback /\ targetErr' = FALSE /\ phase' = "crashed"     \* the Go runtime ends the process
         /\ UNCHANGED <<side, site, at, otherOK>>
OtherCompletes == /\ phase = "recovered" /\ otherOK' = TRUE /\ phase' = "done"
                  /\ UNCHANGED <<side, site, at, alive, callback, targetErr>>
Next == Panic \/ OtherCompletes
Spec == Init /\ [][Next]_vars /\ WF_vars(Next)
Contained == phase \in {"done", "crashed"} => (alive /\ callback >= 1 /\ targetErr /\ otherOK)
Terminates == <>(phase \in {"done", "crashed"})
\* the fault placements, for the harness
Emit == phase = "running" => PrintT(ToJson([side |-> side, site |-> site, at |-> at, thread |-> Thread(side, site),
                                            recovers |-> Recovers(Thread(side, site))]))
=============================================================================
