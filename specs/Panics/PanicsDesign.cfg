CONSTANTS K = 3 Dev = {}
SPECIFICATION Spec
INVARIANTS Contained Emit
PROPERTY Terminates
CHECK_DEADLOCK FALSE
