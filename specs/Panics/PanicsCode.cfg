CONSTANTS K = 3 Dev = {"StorageOutsideRecovery"}
SPECIFICATION Spec
INVARIANTS Contained
CHECK_DEADLOCK FALSE
