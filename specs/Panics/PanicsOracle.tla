---------------------------- MODULE PanicsOracle ----------------------------
(* Judges the child-process runs of the fault placements of Panics.tla (vh panic-run): C22's *)
(* four demands on every placement whose panic was actually raised.                          *)
EXTENDS Naturals, Sequences, FiniteSets, TLC, Json, IOUtils
Cases == ndJsonDeserialize(IOEnv.VERIF_CASES)
VARIABLE n
Problems(c) == LET o == c.obs IN
   IF c.crashed THEN {"process-ended-by-panic-in-" \o c.case.site \o "-on-" \o c.case.side}
   ELSE IF ~o.fired THEN {}
   ELSE (IF o.callback = 0 THEN {"panic-callback-not-called"} ELSE {})
        \* a panic on the responder is an error of the request when the responder ends it with a failure status (the requestor
        \* may have everything it needs by then and finish on its own)
        \cup (IF o.targetErrs = <<>> /\ ~(c.case.side = "resp" /\ o.targetStatus = "failed") THEN {"request-did-not-end-with-an-error"} ELSE {})
        \cup (IF ~o.targetDone THEN {"request-never-ended"} ELSE {})
        \cup (IF ~o.otherOK THEN {"other-request-affected"} ELSE {})
Init == n = 0
Next == n < Len(Cases) /\ n' = n + 1
SetToSeq(S) == LET RECURSIVE F(_) F(T) == IF T = {} THEN <<>> ELSE LET x == CHOOSE y \in T : TRUE IN <<x>> \o F(T \ {x}) IN F(S)
Judge == n > 0 => LET c == Cases[n] IN PrintT(ToJson([id |-> c.case.id, c22 |-> SetToSeq(Problems(c)), fired |-> (~c.crashed /\ c.obs.fired) \/ c.crashed]))
=============================================================================
