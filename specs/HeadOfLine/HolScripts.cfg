CONSTANTS W = 2 PeerLimit = 1 Cap = 2 K = 3 Dev = {"LoopReservesMemory"} MaxEnv = 3 AReq = {"a1", "a2"} BReq = {"b1"}
INIT SInit
NEXT SNext
INVARIANT Emit
CHECK_DEADLOCK FALSE
