CONSTANTS W = 2 MaxA = 1 K = 3
SPECIFICATION Spec
PROPERTY BCompletes
CHECK_DEADLOCK FALSE
