CONSTANTS W = 2 PeerLimit = 1 Cap = 2 K = 3 Dev = {} MaxEnv = 4 AReq = {"a1", "a2", "a3"} BReq = {"b1", "b2"}
SPECIFICATION Spec
INVARIANT MemBound
PROPERTY BServed
CHECK_DEADLOCK FALSE
