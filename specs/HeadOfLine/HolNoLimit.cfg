CONSTANTS W = 2 PeerLimit = 0 Cap = 2 K = 3 Dev = {} MaxEnv = 3 AReq = {"a1", "a2"} BReq = {"b1"}
SPECIFICATION Spec
INVARIANT MemBound
PROPERTY BServed
CHECK_DEADLOCK FALSE
