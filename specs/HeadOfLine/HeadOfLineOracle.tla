-------------------------- MODULE HeadOfLineOracle --------------------------
(* Judges real executions of HeadOfLineScripts scripts (vh hol-run): the watchdog's list of  *)
(* requests of the healthy peer B that did not end within the deadline, against the final    *)
(* states the model of the code as found (Dev = {"LoopReservesMemory"}, same per-peer limit) *)
(* reaches for the same script.                                                              *)
EXTENDS Naturals, Sequences, FiniteSets, TLC, Json, IOUtils
Cases == ndJsonDeserialize(IOEnv.VERIF_CASES)
VARIABLE n
ToSet(s) == { s[i] : i \in 1..Len(s) }
Obs(c) == c.obs
Finals(c) == ToSet(c.case.finals)
Workers == 2
\* what the model of the code as found says can keep B waiting after this script
PredLoop(c) == \E f \in Finals(c) : f.unserved # <<>> /\ f.loop # "idle"
PredWorkers(c) == \E f \in Finals(c) : f.unserved # <<>> /\ f.loop = "idle" /\ f.stuck = Workers /\ c.case.limit = 0
PredServed(c) == \E f \in Finals(c) : f.unserved = <<>>
Problems(c) == LET o == Obs(c) IN
   IF o.unserved = <<>> THEN {}
   ELSE IF ~o.loopResponsive
        THEN (IF PredLoop(c) THEN {"manager-loop-waits-for-memory-of-stalled-peer"} ELSE {"manager-loop-blocked-by-stalled-peer"})
        ELSE (IF PredWorkers(c) /\ o.activeTasks = Workers THEN {"all-workers-wait-for-memory-of-stalled-peer:no-per-peer-limit"}
              ELSE {"healthy-peer-not-served"})
Conforms(c) == (Obs(c).unserved = <<>>) = PredServed(c) \/ (Obs(c).unserved # <<>> /\ (PredLoop(c) \/ PredWorkers(c)))
Init == n = 0
Next == n < Len(Cases) /\ n' = n + 1
SetToSeq(S) == LET RECURSIVE F(_) F(T) == IF T = {} THEN <<>> ELSE LET x == CHOOSE y \in T : TRUE IN <<x>> \o F(T \ {x}) IN F(S)
Judge == n > 0 => LET c == Cases[n] IN
   PrintT(ToJson([id |-> c.case.id, c25 |-> SetToSeq(Problems(c)), conforms |-> Conforms(c), desync |-> Obs(c).desync]))
=============================================================================
