-------------------------- MODULE HeadOfLineScripts --------------------------
(* Environment scripts for the stalled-peer scenarios: every sequence of messages from the   *)
(* stalled peer A and the healthy peer B (new requests with each hook decision, with and     *)
(* without extension data from the hook, cancels, updates, UnpauseResponse calls), each sent *)
(* when the responder has settled, together with what the model says about B at the end.     *)
EXTENDS HeadOfLine, Json
VARIABLES hist, probed
SInit == Init /\ hist = <<>> /\ probed = FALSE
Settled == ~ENABLED Sys
Ev(e, p, r, k, x) == [ev |-> e, p |-> p, r |-> r, kind |-> k, ext |-> x]
\* every script ends with a probe: one more plain request from B, which must be answered whatever happened before
Probe == /\ ~probed /\ probed' = TRUE
         /\ \E r \in Fresh(BReq) : Post(Msg("new", r, FALSE, "accept")) /\ hist' = Append(hist, Ev("new", "B", r, "accept", FALSE))
         /\ UNCHANGED <<loop, wait, st, task, wk, sent, sig, mem, outq, final, answered, nenv>>
SNext == \/ Sys /\ hist' = hist /\ probed' = probed
         \/ Settled /\ Probe
         \/ /\ Settled /\ ~probed /\ probed' = probed
            /\ \/ \E p \in {"A", "B"}, kind \in {"accept", "reject", "pause"}, ext \in BOOLEAN :
                    /\ NewReq(p, kind, ext)
                    /\ hist' = Append(hist, Ev("new", p, CHOOSE r \in Fresh(IF p = "A" THEN AReq ELSE BReq) : TRUE, kind, ext))
               \/ \E r \in Req : Cancel(r) /\ hist' = Append(hist, Ev("cancel", Peer(r), r, "-", FALSE))
               \/ \E r \in Req : Update(r) /\ hist' = Append(hist, Ev("update", Peer(r), r, "-", TRUE))
               \/ \E r \in Req, ext \in BOOLEAN : Unpause(r, ext) /\ hist' = Append(hist, Ev("unpause", Peer(r), r, "-", ext))
BSent == {r \in BReq : \E i \in 1..Len(hist) : hist[i].ev = "new" /\ hist[i].r = r}
Unserved == {r \in BSent : st[r] # "gone"}
StuckWorkers == Cardinality({w \in 1..W : wk[w].pc = "alloc" /\ Peer(wk[w].r) = "A"})
Final == [unserved |-> Unserved, loop |-> loop, stuck |-> StuckWorkers, limit |-> PeerLimit,
          dev |-> IF Dev = {} THEN "design" ELSE "code"]
\* (a script ends when nothing moves and no request of B is left paused: the proviso of C25)
Emit == (Settled /\ probed /\ \A r \in BReq : st[r] # "paused") => PrintT(ToJson([script |-> hist, final |-> Final]))
=============================================================================
