CONSTANTS W = 2 MaxA = 3 K = 3
SPECIFICATION Spec
PROPERTY BCompletes
INVARIANT Emit
CHECK_DEADLOCK FALSE
