--------------------------- MODULE HeadOfLineReq ---------------------------
(* Requestor half of C25.  The requestor's threads shared between peers are the request      *)
(* manager's loop (one mailbox), the W executor workers and one sender per peer.  Sending a  *)
(* request, an update or a cancel only appends to the peer's message queue (no memory is     *)
(* reserved on this side), so neither the loop nor a worker ever waits for a peer's sender;  *)
(* a worker waits only for the responses of its own request.  Peer "A" is stalled: nothing   *)
(* sent to it ever arrives, so a request to A keeps its worker for ever.  Property: a        *)
(* request to the healthy peer B completes, whatever is going on with A.                     *)
EXTENDS Naturals, Sequences, FiniteSets, TLC, Json
CONSTANTS W,        \* executor workers (MaxInProgressOutgoingRequests)
          MaxA,     \* up to MaxA requests to the stalled peer A, started once B's request has had its first block
          K         \* blocks of B's request
Hooks == {"none", "update", "pause"}     \* B's incoming block hook at block 1: nothing / an update to B / pause (the caller resumes)
VARIABLES hook, na, aQueued, aRunning, bGot, bState, outB, sentB
vars == <<hook, na, aQueued, aRunning, bGot, bState, outB, sentB>>
BHasWorker == bState = "running"
Free == W - aRunning - (IF BHasWorker THEN 1 ELSE 0)
Init == /\ hook \in Hooks /\ na \in 0..MaxA /\ aQueued = 0 /\ aRunning = 0 /\ bGot = 0 /\ bState = "running"
        /\ outB = 0 /\ sentB = 0
\* B's first block: the hook acts; a pause gives the worker back (a cancel goes to B's queue)
FirstB == /\ bState = "running" /\ bGot = 0 /\ bGot' = 1
          /\ CASE hook = "update" -> outB' = outB + 1 /\ bState' = bState
               [] hook = "pause"  -> outB' = outB + 1 /\ bState' = "paused"
               [] OTHER           -> UNCHANGED <<outB, bState>>
          /\ aQueued' = na            \* the caller now starts its requests to A
          /\ UNCHANGED <<hook, na, aRunning, sentB>>
\* a free worker takes a queued request to A (and then waits for A for ever)
WorkA == /\ aQueued > 0 /\ Free > 0 /\ aQueued' = aQueued - 1 /\ aRunning' = aRunning + 1
         /\ UNCHANGED <<hook, na, bGot, bState, outB, sentB>>
\* the caller resumes B's request: it is queued again and needs a worker (its new request goes to B's queue when it runs)
ResumeB == /\ bState = "paused" /\ bState' = "queued" /\ UNCHANGED <<hook, na, aQueued, aRunning, bGot, outB, sentB>>
WorkB == /\ bState = "queued" /\ Free > 0 /\ bState' = "running" /\ outB' = outB + 1
         /\ UNCHANGED <<hook, na, aQueued, aRunning, bGot, sentB>>
BlockB == /\ bState = "running" /\ bGot > 0 /\ bGot < K /\ bGot' = bGot + 1
          /\ UNCHANGED <<hook, na, aQueued, aRunning, bState, outB, sentB>>
DoneB == /\ bState = "running" /\ bGot = K /\ bState' = "done" /\ UNCHANGED <<hook, na, aQueued, aRunning, bGot, outB, sentB>>
\* B's sender writes what is queued for B; A's sender never completes a write
SendB == /\ sentB < outB /\ sentB' = outB /\ UNCHANGED <<hook, na, aQueued, aRunning, bGot, bState, outB>>
Next == FirstB \/ WorkA \/ ResumeB \/ WorkB \/ BlockB \/ DoneB \/ SendB
Spec == Init /\ [][Next]_vars /\ WF_vars(FirstB) /\ WF_vars(WorkA) /\ WF_vars(ResumeB) /\ WF_vars(WorkB) /\ WF_vars(BlockB) /\ WF_vars(DoneB) /\ WF_vars(SendB)
BCompletes == <>(bState = "done")
\* what the model says for a scenario: B completes in every behaviour unless a pause gave its worker away and A's requests can hold them all
Predict(h, n) == ~(h = "pause" /\ n >= W)
\* the scenarios for the harness
Emit == (bGot = 0) => PrintT(ToJson([hook |-> hook, na |-> na, w |-> W, completes |-> Predict(hook, na)]))
=============================================================================
