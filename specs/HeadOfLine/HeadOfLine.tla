----------------------------- MODULE HeadOfLine -----------------------------
(* Threads of a responder that are shared between peers, and the places where work for one   *)
(* peer can make them wait:                                                                  *)
(*   - the response manager's loop (responsemanager/server.go run): one thread, one mailbox; *)
(*     handlers that send extension data (request hooks, update hooks of a paused response,  *)
(*     UnpauseResponse with extensions) reserve the peer's block memory and WAIT for it      *)
(*     (responseassembler execute -> messagequeue.AllocateAndBuildMessage);                  *)
(*   - the W query workers: a worker waits for the loop when it starts and finishes a task   *)
(*     (rendezvous through the mailbox) and waits for the peer's memory before every block;  *)
(*   - one sender per peer: releases the peer's memory when a message has been written.      *)
(* Peer "A" is stalled: its sender never completes, so its memory is never released.         *)
(* Property C25: every request of the healthy peer "B" is still answered.                    *)
EXTENDS Naturals, Sequences, FiniteSets, TLC
CONSTANTS W,          \* number of query workers
          PeerLimit,  \* per-peer maximum of running traversals, 0 = unlimited (the default)
          Cap,        \* per-peer memory allowance, in blocks
          K,          \* blocks per request
          Dev, MaxEnv,
          AReq, BReq  \* request ids of the stalled peer A (subset of a1..a3) and of the healthy peer B (subset of b1, b2)
Req == AReq \cup BReq
Peer(r) == IF r \in AReq THEN "A" ELSE "B"
Idx(r) == CASE r = "a1" -> 1 [] r = "a2" -> 2 [] r = "a3" -> 3 [] r = "b1" -> 4 [] r = "b2" -> 5

VARIABLES
  mbox,     \* the manager's mailbox: sequence of messages
  loop,     \* "idle" or the peer whose memory the loop is waiting for
  wait,     \* the message the blocked loop is in the middle of
  st,       \* request state: "none","queued","running","paused","completing","gone"
  task,     \* "none","pending","active"
  wk,       \* worker -> [r, pc] ; pc: "idle","start","run","alloc","finish"
  sent,     \* blocks queued so far per request
  sig,      \* one-slot error signal per request
  mem,      \* peer -> reserved units
  outq,     \* peer -> units queued for sending (released when written)
  final,    \* request -> terminal status queued for sending
  answered, \* requests whose terminal status was written to the peer
  nenv
vars == <<mbox, loop, wait, st, task, wk, sent, sig, mem, outq, final, answered, nenv>>
Idle == [r |-> "-", pc |-> "idle"]
NoMsg == [t |-> "-", r |-> "-", ext |-> FALSE, k |-> "-"]
Msg(t, r, ext, k) == [t |-> t, r |-> r, ext |-> ext, k |-> k]

Init == /\ mbox = <<>> /\ loop = "idle" /\ wait = NoMsg
        /\ st = [r \in Req |-> "none"] /\ task = [r \in Req |-> "none"]
        /\ wk = [w \in 1..W |-> Idle] /\ sent = [r \in Req |-> 0] /\ sig = [r \in Req |-> FALSE]
        /\ mem = [p \in {"A", "B"} |-> 0] /\ outq = [p \in {"A", "B"} |-> 0]
        /\ final = [r \in Req |-> FALSE] /\ answered = {} /\ nenv = 0
Env1 == nenv < MaxEnv /\ nenv' = nenv + 1
Full(p) == mem[p] >= Cap
Unused(S) == {r \in S : st[r] = "none" /\ \A m \in 1..Len(mbox) : mbox[m].r # r}
Fresh(S) == {r \in Unused(S) : \A q \in Unused(S) : Idx(r) <= Idx(q)}
Post(m) == mbox' = Append(mbox, m)

\* ---- environment: messages from the peers and API calls, all posted to the mailbox
\* kind: "accept" | "reject" | "pause" ; ext: the request hook also sends extension data
NewReq(p, kind, ext) == /\ Env1 /\ \E r \in Fresh(IF p = "A" THEN AReq ELSE BReq) : Post(Msg("new", r, ext, kind))
                        /\ UNCHANGED <<loop, wait, st, task, wk, sent, sig, mem, outq, final, answered>>
Cancel(r) == /\ Env1 /\ st[r] # "none" /\ Post(Msg("cancel", r, FALSE, "-"))
             /\ UNCHANGED <<loop, wait, st, task, wk, sent, sig, mem, outq, final, answered>>
\* an update whose hook sends extension data; acts in the loop only for a paused response
Update(r) == /\ Env1 /\ st[r] # "none" /\ Post(Msg("update", r, TRUE, "-"))
             /\ UNCHANGED <<loop, wait, st, task, wk, sent, sig, mem, outq, final, answered>>
Unpause(r, ext) == /\ st[r] = "paused" /\ (\A m \in 1..Len(mbox) : ~(mbox[m].t = "unpause" /\ mbox[m].r = r))
                   /\ Post(Msg("unpause", r, ext, "-"))
                   /\ UNCHANGED <<loop, wait, st, task, wk, sent, sig, mem, outq, final, answered, nenv>>

\* ---- the loop
\* a handler's transaction for peer p: extension data reserves one unit and waits for it; everything else is free
NeedsMem(m) == (m.ext /\ m.t \in {"new", "unpause"}) \/ (m.t = "update" /\ st[m.r] = "paused")
Reserve(p, n) == mem' = [mem EXCEPT ![p] = @ + n] /\ outq' = [outq EXCEPT ![p] = @ + n]
Handle(m, reserved) ==
  LET r == m.r p == Peer(m.r) IN
  /\ IF reserved THEN Reserve(p, 1) ELSE UNCHANGED <<mem, outq>>
  /\ CASE m.t = "new" ->
            /\ CASE m.k = "accept" -> st' = [st EXCEPT ![r] = "queued"] /\ task' = [task EXCEPT ![r] = "pending"] /\ final' = final
                 [] m.k = "pause"  -> st' = [st EXCEPT ![r] = "paused"] /\ task' = task /\ final' = final
                 [] m.k = "reject" -> st' = [st EXCEPT ![r] = "completing"] /\ task' = task /\ final' = [final EXCEPT ![r] = TRUE]
            /\ UNCHANGED <<wk, sig>>
       [] m.t = "cancel" ->
            IF st[r] = "running" THEN sig' = [sig EXCEPT ![r] = TRUE] /\ UNCHANGED <<st, task, wk, final>>
            ELSE IF st[r] \in {"queued", "paused"} THEN st' = [st EXCEPT ![r] = "gone"] /\ task' = [task EXCEPT ![r] = IF @ = "pending" THEN "none" ELSE @] /\ UNCHANGED <<wk, sig, final>>
            ELSE UNCHANGED <<st, task, wk, sig, final>>
       [] m.t = "update" -> UNCHANGED <<st, task, wk, sig, final>>
       [] m.t = "unpause" ->
            IF st[r] = "paused" THEN st' = [st EXCEPT ![r] = "queued"] /\ task' = [task EXCEPT ![r] = "pending"] /\ UNCHANGED <<wk, sig, final>>
            ELSE UNCHANGED <<st, task, wk, sig, final>>
       \* a worker's start message: the task runs unless its request is gone
       [] m.t = "start" ->
            LET w == CHOOSE w \in 1..W : wk[w].r = r /\ wk[w].pc = "start" IN
            IF st[r] = "queued" THEN st' = [st EXCEPT ![r] = "running"] /\ wk' = [wk EXCEPT ![w].pc = "run"] /\ UNCHANGED <<task, sig, final>>
            ELSE wk' = [wk EXCEPT ![w] = Idle] /\ task' = [task EXCEPT ![r] = "none"] /\ UNCHANGED <<st, sig, final>>
       \* a worker's finish message (k: "done" | "cancelled")
       [] m.t = "finish" ->
            LET w == CHOOSE w \in 1..W : wk[w].r = r /\ wk[w].pc = "finish" IN
            /\ wk' = [wk EXCEPT ![w] = Idle] /\ task' = [task EXCEPT ![r] = "none"] /\ sig' = sig
            /\ IF st[r] # "running" THEN UNCHANGED <<st, final>>
               ELSE IF m.k = "cancelled" THEN st' = [st EXCEPT ![r] = "gone"] /\ final' = final
               ELSE st' = [st EXCEPT ![r] = "completing"] /\ final' = [final EXCEPT ![r] = TRUE]
       \* the sender's notification that the terminal status was written
       [] m.t = "sent" -> st' = [st EXCEPT ![r] = "gone"] /\ UNCHANGED <<task, wk, sig, final>>
LoopTake ==
  /\ loop = "idle" /\ mbox # <<>>
  /\ LET m == Head(mbox) p == Peer(m.r) IN
     /\ mbox' = Tail(mbox)
     /\ IF NeedsMem(m) /\ Full(p) /\ "LoopReservesMemory" \in Dev
        THEN loop' = p /\ wait' = m /\ UNCHANGED <<st, task, wk, sig, mem, outq, final>>    \* the code as found: the loop waits
        ELSE /\ Handle(m, NeedsMem(m) /\ ("LoopReservesMemory" \in Dev \/ ~Full(p)))          \* design: the loop never waits
             /\ UNCHANGED <<loop, wait>>
  /\ UNCHANGED <<sent, answered, nenv>>
LoopResume ==
  /\ loop # "idle" /\ ~Full(loop) /\ Handle(wait, TRUE) /\ loop' = "idle" /\ wait' = NoMsg
  /\ UNCHANGED <<mbox, sent, answered, nenv>>

\* ---- workers
Running(p) == Cardinality({r \in Req : Peer(r) = p /\ task[r] = "active"})
\* (which pending task a free worker pops is the queue's business: any whose peer is under its limit)
Pop(w) == /\ wk[w] = Idle
          /\ \E r \in Req : /\ task[r] = "pending" /\ (PeerLimit = 0 \/ Running(Peer(r)) < PeerLimit)
                            /\ task' = [task EXCEPT ![r] = "active"] /\ wk' = [wk EXCEPT ![w] = [r |-> r, pc |-> "start"]]
                            /\ Post(Msg("start", r, FALSE, "-"))
          /\ UNCHANGED <<loop, wait, st, sent, sig, mem, outq, final, answered, nenv>>
\* next block: check the error signal, then reserve memory for the block and WAIT for it
Step(w) == LET r == wk[w].r p == Peer(r) IN
  /\ wk[w].pc = "run"
  /\ IF sig[r] THEN /\ sig' = [sig EXCEPT ![r] = FALSE] /\ wk' = [wk EXCEPT ![w].pc = "finish"] /\ Post(Msg("finish", r, FALSE, "cancelled"))
                    /\ UNCHANGED <<sent, mem, outq>>
     ELSE IF sent[r] = K THEN /\ wk' = [wk EXCEPT ![w].pc = "finish"] /\ Post(Msg("finish", r, FALSE, "done")) /\ UNCHANGED <<sig, sent, mem, outq>>
     ELSE IF Full(p) THEN wk' = [wk EXCEPT ![w].pc = "alloc"] /\ UNCHANGED <<mbox, sig, sent, mem, outq>>
     ELSE Reserve(p, 1) /\ sent' = [sent EXCEPT ![r] = @ + 1] /\ UNCHANGED <<mbox, wk, sig>>
  /\ UNCHANGED <<loop, wait, st, task, final, answered, nenv>>
Granted(w) == LET r == wk[w].r p == Peer(r) IN
  /\ wk[w].pc = "alloc" /\ ~Full(p) /\ Reserve(p, 1) /\ sent' = [sent EXCEPT ![r] = @ + 1] /\ wk' = [wk EXCEPT ![w].pc = "run"]
  /\ UNCHANGED <<mbox, loop, wait, st, task, sig, final, answered, nenv>>

\* ---- B's sender (A's never completes a write): writes what is queued, releases its memory, reports terminal statuses
SendB == /\ (outq["B"] > 0 \/ \E r \in BReq : final[r] /\ r \notin answered)
         /\ mem' = [mem EXCEPT !["B"] = @ - outq["B"]] /\ outq' = [outq EXCEPT !["B"] = 0]
         /\ LET done == {r \in BReq : final[r] /\ r \notin answered} IN
            /\ answered' = answered \cup done
            /\ mbox' = mbox \o [i \in 1..Cardinality(done) |-> Msg("sent", CHOOSE r \in done : Cardinality({q \in done : Idx(q) < Idx(r)}) = i - 1, FALSE, "-")]
         /\ UNCHANGED <<loop, wait, st, task, wk, sent, sig, final, nenv>>

Sys == LoopTake \/ LoopResume \/ SendB \/ \E w \in 1..W : Pop(w) \/ Step(w) \/ Granted(w)
EnvNext == \/ \E p \in {"A", "B"}, kind \in {"accept", "reject", "pause"}, ext \in BOOLEAN : NewReq(p, kind, ext)
           \/ \E r \in Req : Cancel(r) \/ Update(r)
UnpauseNext == \E r \in Req, ext \in BOOLEAN : Unpause(r, ext)
Next == Sys \/ EnvNext \/ UnpauseNext
Fair == /\ WF_vars(LoopTake) /\ WF_vars(LoopResume) /\ WF_vars(SendB)
        /\ \A w \in 1..W : WF_vars(Pop(w)) /\ WF_vars(Step(w)) /\ WF_vars(Granted(w))
        /\ \A r \in BReq : WF_vars(Unpause(r, FALSE))          \* proviso: a paused response is eventually unpaused
Spec == Init /\ [][Next]_vars /\ Fair
-----------------------------------------------------------------------------
\* C25: whatever A does, every request of B that reached the responder ends (answered or cancelled by B)
Received(r) == st[r] # "none" \/ \E m \in 1..Len(mbox) : mbox[m].r = r /\ mbox[m].t = "new"
BServed == \A r \in BReq : Received(r) ~> (st[r] = "gone")
MemBound == \A p \in {"A", "B"} : mem[p] <= Cap + (IF "LoopReservesMemory" \in Dev THEN 0 ELSE MaxEnv)
=============================================================================
