----------------------------- MODULE Publisher -----------------------------
(* Event publisher of go-graphsync (notifications/publisher.go).                            *)
(* Callers enqueue commands under the RW lock (Shutdown under the write lock); one          *)
(* goroutine processes the queue in FIFO order.  Caller side: `closed`, `cmds`.              *)
(* Processor side: `reg`.  Observables: per subscriber the callbacks it received.           *)
(* Property C18: per (subscriber, topic) the events published between the processing of    *)
(* its subscribe and of the end of that subscription, in order, then exactly one close.    *)
EXTENDS Naturals, Sequences, FiniteSets, TLC
CONSTANTS Topics, Subs, MaxCmds, MaxQueue

VARIABLES closed,   \* caller side: Shutdown has been called
          cmds,     \* FIFO command queue
          running,  \* the processing goroutine has not yet handled the shutdown command
          reg,      \* SUBSET (Topics \X Subs): live subscriptions (processor side)
          got,      \* [Subs -> [Topics -> Seq]] callbacks delivered: <<"next", n>> or <<"close">>
          nEv,      \* number of Publish calls so far (event payloads are 1,2,...)
          ncmd,
          hist      \* ghost: sequence of processed commands
vars == <<closed, cmds, running, reg, got, nEv, ncmd, hist>>

Init == /\ closed = FALSE /\ cmds = <<>> /\ running = TRUE /\ reg = {}
        /\ got = [s \in Subs |-> [t \in Topics |-> <<>>]] /\ nEv = 0 /\ ncmd = 0 /\ hist = <<>>

Enq(c) == /\ ncmd < MaxCmds /\ Len(cmds) < MaxQueue /\ ncmd' = ncmd + 1
          /\ IF closed THEN cmds' = cmds ELSE cmds' = Append(cmds, c)
\* ---- caller side (atomic under the RW lock)
Subscribe(t, s)   == Enq([op |-> "sub", t |-> t, s |-> s]) /\ UNCHANGED <<closed, running, reg, got, nEv, hist>>
Unsubscribe(s)    == Enq([op |-> "unsub", s |-> s]) /\ UNCHANGED <<closed, running, reg, got, nEv, hist>>
Publish(t)        == Enq([op |-> "pub", t |-> t, e |-> nEv + 1]) /\ nEv' = nEv + 1 /\ UNCHANGED <<closed, running, reg, got, hist>>
CloseTopic(t)     == Enq([op |-> "close", t |-> t]) /\ UNCHANGED <<closed, running, reg, got, nEv, hist>>
Shutdown          == Enq([op |-> "shutdown"]) /\ closed' = TRUE /\ UNCHANGED <<running, reg, got, nEv, hist>>

\* ---- processor: handle the head command
Deliver(g, pairs, cb) == [s \in Subs |-> [t \in Topics |-> IF <<t, s>> \in pairs THEN Append(g[s][t], cb) ELSE g[s][t]]]
\* effect of processing command c on <<reg, got, running>>
Proc(c, rg, g) ==
  CASE c.op = "sub"   -> <<rg \cup {<<c.t, c.s>>}, g, TRUE>>
    [] c.op = "pub"   -> <<rg, Deliver(g, {p \in rg : p[1] = c.t}, <<"next", c.e>>), TRUE>>
    [] c.op = "close" -> LET gone == {p \in rg : p[1] = c.t} IN <<rg \ gone, Deliver(g, gone, <<"close">>), TRUE>>
    [] c.op = "unsub" -> LET gone == {p \in rg : p[2] = c.s} IN <<rg \ gone, Deliver(g, gone, <<"close">>), TRUE>>
    [] c.op = "shutdown" -> <<{}, Deliver(g, rg, <<"close">>), FALSE>>
Process ==
  /\ running /\ cmds # <<>>
  /\ LET c == Head(cmds) r == Proc(c, reg, got) IN
     /\ cmds' = Tail(cmds) /\ hist' = Append(hist, c)
     /\ reg' = r[1] /\ got' = r[2] /\ running' = r[3]
  /\ UNCHANGED <<closed, nEv, ncmd>>

Next == \/ \E t \in Topics, s \in Subs : Subscribe(t, s)
        \/ \E s \in Subs : Unsubscribe(s)
        \/ \E t \in Topics : Publish(t) \/ CloseTopic(t)
        \/ Shutdown \/ Process
Spec == Init /\ [][Next]_vars /\ WF_vars(Process)
-----------------------------------------------------------------------------
\* ---- C18 as a function of the processed command history: the reference per (s, t)
RECURSIVE Ref(_, _, _, _, _)
\* h: remaining history, s,t: pair, live: currently subscribed, acc: callbacks so far
Ref(h, s, t, live, acc) ==
  IF h = <<>> THEN acc
  ELSE LET c == Head(h) IN
       IF c.op = "sub" /\ c.s = s /\ c.t = t THEN Ref(Tail(h), s, t, TRUE, acc)
       ELSE IF c.op = "pub" /\ c.t = t /\ live THEN Ref(Tail(h), s, t, live, Append(acc, <<"next", c.e>>))
       ELSE IF live /\ ((c.op = "close" /\ c.t = t) \/ (c.op = "unsub" /\ c.s = s) \/ c.op = "shutdown")
            THEN Ref(Tail(h), s, t, FALSE, Append(acc, <<"close">>))
       ELSE Ref(Tail(h), s, t, live, acc)
DeliveryExact == \A s \in Subs, t \in Topics : got[s][t] = Ref(hist, s, t, FALSE, <<>>)
\* direct readings of the statement
InOrder == \A s \in Subs, t \in Topics : \A i, j \in 1..Len(got[s][t]) :
   (i < j /\ got[s][t][i][1] = "next" /\ got[s][t][j][1] = "next") => got[s][t][i][2] < got[s][t][j][2]
AfterShutdownNothingLive == ~running => reg = {}
\* liveness: every command is eventually processed while running; after shutdown all subscriptions get their close
AllProcessed == <>[](cmds = <<>> \/ ~running)
View == <<closed, cmds, running, reg>>
=============================================================================
