--------------------------- MODULE PublisherGraph ---------------------------
(* B1: sequential use of the publisher (every call is followed by the processing of its     *)
(* command before the next call).  One edge = one public call; `out` = callbacks it caused. *)
EXTENDS Publisher, Json
VARIABLE act
GInit == Init /\ act = [op |-> "init"]
\* a call made while nothing is queued, immediately followed by the processing of its command
SeqCall(c) ==
  /\ cmds = <<>> /\ cmds' = <<>> /\ ncmd' = ncmd
  /\ nEv' = IF c.op = "pub" THEN nEv + 1 ELSE nEv
  /\ IF closed THEN UNCHANGED <<closed, running, reg, got, hist>>
     ELSE LET r == Proc(c, reg, got) IN
          /\ reg' = r[1] /\ got' = r[2] /\ running' = r[3] /\ hist' = Append(hist, c)
          /\ closed' = (c.op = "shutdown")
GNext == \/ \E t \in Topics, s \in Subs : SeqCall([op |-> "sub", t |-> t, s |-> s]) /\ act' = [op |-> "sub", t |-> t, s |-> s]
         \/ \E s \in Subs : SeqCall([op |-> "unsub", s |-> s]) /\ act' = [op |-> "unsub", s |-> s]
         \/ \E t \in Topics : \/ SeqCall([op |-> "pub", t |-> t, e |-> nEv + 1]) /\ act' = [op |-> "pub", t |-> t]
                              \/ SeqCall([op |-> "close", t |-> t]) /\ act' = [op |-> "close", t |-> t]
         \/ SeqCall([op |-> "shutdown"]) /\ act' = [op |-> "shutdown"]
GView == <<closed, running, reg>>
\* callbacks caused by this call, per subscriber and topic: "none", "next" or "close"
Delta(s, t) == IF Len(got'[s][t]) = Len(got[s][t]) THEN "none" ELSE got'[s][t][Len(got'[s][t])][1]
Emit == PrintT(ToJson([ from |-> ToString(GView), to |-> ToString(GView'), act |-> act',
                        out |-> [ok |-> ~closed, cb |-> [s \in Subs |-> [t \in Topics |-> Delta(s, t)]]] ]))
=============================================================================
