CONSTANTS Topics = {"t1","t2"} Subs = {"s1","s2"} MaxCmds = 6 MaxQueue = 3
SPECIFICATION Spec
INVARIANTS DeliveryExact InOrder AfterShutdownNothingLive
PROPERTIES AllProcessed
CHECK_DEADLOCK FALSE
