------------------------------ MODULE Responder ------------------------------
(* One incoming request (id r, from peer P, K blocks) in the response manager                *)
(* (responsemanager/server.go, client.go, subscriber.go, queryexecutor/queryexecutor.go),    *)
(* together with the worker executing it, the peer's message queue and the notification      *)
(* subscriber.  The manager is an actor: one mailbox message = one atomic handler.           *)
(* A second peer Q may send messages carrying the same request id.                           *)
(* Properties: C05 (every received request is retired with exactly one outcome), C10 (Q's    *)
(* messages change nothing for P), responder half of C23.                                    *)
EXTENDS Naturals, Sequences, FiniteSets, TLC
CONSTANTS K, Dev, MaxEnv

VARIABLES
  resp,      \* "none","queued","running","paused","completing","gone"
  sigPause, sigErr,      \* one-slot signals: BOOLEAN, "none"|"cancel"|"net"|"cmd"
  task,      \* "none","pending","active"
  ex,        \* executor pc: "idle","start","load","txn","txnc","updhook","hook","complete","finish","finishing"
  exErr,     \* "nil","paused","cancel","net","cmd","hookerr"
  trav,      \* blocks traversed
  mq,        \* queued outgoing messages for P: sequence of [final] ; final: "none" or a terminal status name
  sending,   \* the message currently in SendMsg ([final]) or "idle"
  closed,    \* response stream closed after a send failure
  prot,      \* connection protections held for the request (ghost count)
  completed, cancelled, neterr,   \* outcome notifications (ghost counts); completed is a sequence of statuses
  received,  \* the request has been received
  upd,       \* updates from the requestor stored for the executor (response.updates)
  sigUpd,    \* one-slot update signal
  nenv
vars == <<resp, sigPause, sigErr, task, ex, exErr, trav, mq, sending, closed, prot, completed, cancelled, neterr, received, upd, sigUpd, nenv>>

NoMsg == [final |-> "-"]
Init == /\ resp = "none" /\ sigPause = FALSE /\ sigErr = "none" /\ task = "none" /\ ex = "idle" /\ exErr = "nil" /\ trav = 0
        /\ mq = <<>> /\ sending = NoMsg /\ closed = FALSE /\ prot = 0 /\ completed = <<>> /\ cancelled = 0 /\ neterr = 0
        /\ received = FALSE /\ upd = 0 /\ sigUpd = FALSE /\ nenv = 0
Live == resp \in {"queued", "running", "paused", "completing"}
\* the peer's message queue coalesces everything queued since the sender last took a message (small blocks: one builder)
Enq(final) == IF closed THEN mq ELSE IF mq = <<>> THEN <<[final |-> final]>> ELSE <<[final |-> IF final # "none" THEN final ELSE mq[1].final]>>
Env1 == nenv < MaxEnv /\ nenv' = nenv + 1

\* ---- terminateRequest
Term == /\ resp' = "gone" /\ prot' = (IF Live THEN prot - 1 ELSE prot)

\* ---- a new request from P arrives; the request hooks decide
New(h) ==   \* h: "accept","reject","pause","error"
  /\ Env1 /\ ~received /\ received' = TRUE /\ prot' = prot + 1
  /\ CASE h = "accept" -> resp' = "queued" /\ task' = "pending" /\ mq' = mq
       [] h = "pause"  -> resp' = "paused" /\ task' = task /\ mq' = Enq("none")
       [] h = "reject" -> resp' = "completing" /\ task' = task /\ mq' = Enq("rejected")
       [] h = "error"  -> resp' = "completing" /\ task' = task /\ mq' = Enq("failed")
  /\ UNCHANGED <<sigPause, sigErr, ex, exErr, trav, sending, closed, completed, cancelled, neterr, upd, sigUpd>>

\* ---- abortRequest(e): e = "cancel" (requestor cancel), "net" (send failure), "cmd" (responder's CancelResponse)
Abort(e) ==
  /\ task' = (IF Live /\ task = "pending" THEN "none" ELSE task)           \* responseQueue.Remove
  /\ IF ~Live \/ (resp = "completing" /\ e # "net") THEN UNCHANGED <<resp, prot, cancelled, mq, sigErr>>
     ELSE IF resp # "running" THEN
          IF e = "cancel" THEN Term /\ cancelled' = cancelled + 1 /\ UNCHANGED <<mq, sigErr>>
          ELSE IF e = "net" THEN Term /\ UNCHANGED <<cancelled, mq, sigErr>>
          ELSE resp' = "completing" /\ mq' = Enq("cancelled") /\ UNCHANGED <<prot, cancelled, sigErr>>
     ELSE sigErr' = (IF sigErr = "none" THEN e ELSE sigErr) /\ UNCHANGED <<resp, prot, cancelled, mq>>
\* cancel / update from a peer; who == "P" or "Q"
PeerCancel(who) ==
  /\ Env1 /\ received
  /\ IF who = "P" \/ "KeyedByIdOnly" \in Dev THEN Abort("cancel") ELSE UNCHANGED <<task, resp, prot, cancelled, mq, sigErr>>
  /\ UNCHANGED <<sigPause, ex, exErr, trav, sending, closed, completed, neterr, received, upd, sigUpd>>
CmdCancel == /\ Env1 /\ received /\ Abort("cmd")
             /\ UNCHANGED <<sigPause, ex, exErr, trav, sending, closed, completed, neterr, received, upd, sigUpd>>
\* an update from a peer (processUpdate).  For a paused response the update hooks run in the manager's loop and decide
\* d: "none" | "unpause" | "error"; otherwise the update is stored for the executor and the update signal is raised
PeerUpdate(who, d) ==
  /\ Env1 /\ received
  /\ IF (who # "P" /\ "KeyedByIdOnly" \notin Dev) \/ ~Live \/ resp = "completing"
     THEN UNCHANGED <<resp, task, mq, upd, sigUpd>>
     ELSE IF resp = "paused" THEN
          /\ UNCHANGED <<upd, sigUpd>>
          /\ CASE d = "error"   -> resp' = "completing" /\ mq' = Enq("failed") /\ task' = task
               [] d = "unpause" -> resp' = "queued" /\ task' = "pending" /\ mq' = mq
               [] OTHER         -> UNCHANGED <<resp, task, mq>>
     ELSE upd' = upd + 1 /\ sigUpd' = TRUE /\ UNCHANGED <<resp, task, mq>>
  /\ UNCHANGED <<sigPause, sigErr, ex, exErr, trav, sending, closed, prot, completed, cancelled, neterr, received>>
\* a new request from Q with the same id: the code overwrites P's record
QNew == /\ Env1 /\ received
        /\ IF "KeyedByIdOnly" \in Dev /\ Live THEN resp' = "queued" /\ task' = "pending" /\ prot' = prot   \* (Q's own protection is not P's)
           ELSE UNCHANGED <<resp, task, prot>>
        /\ UNCHANGED <<sigPause, sigErr, ex, exErr, trav, mq, sending, closed, completed, cancelled, neterr, received, upd, sigUpd>>
PauseCmd == /\ Env1 /\ received
            /\ sigPause' = (IF resp \in {"queued", "running"} THEN TRUE ELSE sigPause)
            /\ UNCHANGED <<resp, sigErr, task, ex, exErr, trav, mq, sending, closed, prot, completed, cancelled, neterr, received, upd, sigUpd>>
UnpauseCmd == /\ resp = "paused" /\ resp' = "queued" /\ task' = "pending"
              /\ UNCHANGED <<sigPause, sigErr, ex, exErr, trav, mq, sending, closed, prot, completed, cancelled, neterr, received, upd, sigUpd, nenv>>

\* ---- worker / query executor
Pop == /\ ex = "idle" /\ task = "pending" /\ task' = "active" /\ ex' = "start"
       /\ UNCHANGED <<resp, sigPause, sigErr, exErr, trav, mq, sending, closed, prot, completed, cancelled, neterr, received, upd, sigUpd, nenv>>
Start == /\ ex = "start"
         /\ IF resp \in {"none", "gone", "completing"} THEN task' = "none" /\ ex' = "idle" /\ resp' = resp
            ELSE resp' = "running" /\ ex' = "load" /\ task' = task
         /\ exErr' = "nil"
         /\ UNCHANGED <<sigPause, sigErr, trav, mq, sending, closed, prot, completed, cancelled, neterr, received, upd, sigUpd, nenv>>
\* load the next block, or find the traversal complete
Load == /\ ex = "load" /\ ex' = (IF trav = K THEN "complete" ELSE "txn")
        /\ UNCHANGED <<resp, sigPause, sigErr, task, exErr, trav, mq, sending, closed, prot, completed, cancelled, neterr, received, upd, sigUpd, nenv>>
\* transaction: checkForUpdates, SendResponse.  The signals are read with one Go select: when both a pause and an error are
\* pending either may be taken first (the other stays for later)
TxnBody ==
       /\ \/ /\ sigPause /\ sigPause' = FALSE /\ trav' = trav + 1 /\ mq' = Enq("none") /\ ex' = "finish" /\ exErr' = "paused" /\ UNCHANGED <<sigErr, upd, sigUpd>>
          \/ /\ sigErr # "none" /\ sigErr' = "none" /\ ex' = "finish" /\ exErr' = sigErr /\ UNCHANGED <<sigPause, trav, mq, upd, sigUpd>>
          \/ /\ sigUpd /\ sigUpd' = FALSE /\ ex' = (IF upd > 0 THEN "updhook" ELSE "txnc") /\ UNCHANGED <<sigPause, sigErr, exErr, trav, mq, upd>>
          \/ /\ ~sigPause /\ sigErr = "none" /\ ~sigUpd /\ trav' = trav + 1 /\ mq' = Enq("none") /\ ex' = "hook" /\ UNCHANGED <<sigPause, sigErr, exErr, upd, sigUpd>>
       /\ UNCHANGED <<resp, task, sending, closed, prot, completed, cancelled, neterr, received, nenv>>
Txn == ex = "txn" /\ TxnBody          \* entered from the load of the next block
TxnCont == ex = "txnc" /\ TxnBody     \* the same loop going round after updates were handled
\* the executor runs the update hooks for the stored updates one by one (GetUpdates handed it all of them): d: "none" | "error"
UpdHook(d) ==
  /\ ex = "updhook"
  /\ IF d = "error" THEN ex' = "finish" /\ exErr' = "hookerr" /\ upd' = 0
     ELSE upd' = upd - 1 /\ ex' = (IF upd - 1 > 0 THEN "updhook" ELSE "txnc") /\ exErr' = exErr
  /\ UNCHANGED <<resp, sigPause, sigErr, task, trav, mq, sending, closed, prot, completed, cancelled, neterr, received, sigUpd, nenv>>
\* outgoing block hook decision
Hook(h) == /\ ex = "hook"
           /\ CASE h = "ok" -> ex' = "load" /\ exErr' = exErr
                [] h = "pause" -> ex' = "finish" /\ exErr' = "paused"
                [] h = "error" -> ex' = "finish" /\ exErr' = "hookerr"
           /\ UNCHANGED <<resp, sigPause, sigErr, task, trav, mq, sending, closed, prot, completed, cancelled, neterr, received, upd, sigUpd, nenv>>
Complete == /\ ex = "complete" /\ ex' = "finish" /\ exErr' = "nil"
            /\ UNCHANGED <<resp, sigPause, sigErr, task, trav, mq, sending, closed, prot, completed, cancelled, neterr, received, upd, sigUpd, nenv>>
\* executeQuery's tail, in the worker: the transaction that closes the response out (nothing for a pause, a network error or a
\* requestor cancel)
FinalTxn ==
  /\ ex = "finish" /\ ex' = "finishing"
  /\ LET status == CASE exErr = "nil" -> "full" [] exErr = "cmd" -> "cancelled" [] exErr = "hookerr" -> "failed" [] OTHER -> "none"
     IN mq' = IF status # "none" THEN Enq(status) ELSE mq
  /\ UNCHANGED <<resp, sigPause, sigErr, task, exErr, trav, sending, closed, prot, completed, cancelled, neterr, received, upd, sigUpd, nenv>>
\* the FinishTask handler of the manager (rendezvous with the worker).  The final status may already have been sent, and the
\* request terminated, by then.
FinishMsg ==
  /\ ex = "finishing" /\ ex' = "idle" /\ task' = "none"
  /\ LET e == IF "NetErrSignalAfterLastBlock" \in Dev THEN exErr                      \* code as found: whatever the executor returned
              ELSE IF closed /\ exErr # "cancel" THEN "net"                          \* design: nothing more can be sent on a closed stream
              ELSE exErr                                                              \* (a requestor cancel the executor saw is still reported as one)
     IN IF ~Live THEN UNCHANGED <<resp, prot, cancelled>>
        ELSE IF e = "paused" THEN resp' = "paused" /\ UNCHANGED <<prot, cancelled>>
        ELSE IF e = "cancel" THEN Term /\ cancelled' = cancelled + 1
        ELSE IF e = "net" THEN Term /\ UNCHANGED cancelled
        ELSE resp' = "completing" /\ UNCHANGED <<prot, cancelled>>
  /\ UNCHANGED <<sigPause, sigErr, exErr, trav, mq, sending, closed, completed, neterr, received, upd, sigUpd, nenv>>

\* ---- message queue and subscriber
TakeMsg == /\ sending = NoMsg /\ mq # <<>> /\ sending' = Head(mq) /\ mq' = Tail(mq)
           /\ UNCHANGED <<resp, sigPause, sigErr, task, ex, exErr, trav, closed, prot, completed, cancelled, neterr, received, upd, sigUpd, nenv>>
SendOK == /\ sending # NoMsg /\ sending' = NoMsg
          /\ IF sending.final # "none" THEN Term /\ completed' = Append(completed, sending.final)
             ELSE UNCHANGED <<resp, prot, completed>>
          /\ UNCHANGED <<sigPause, sigErr, task, ex, exErr, trav, mq, closed, cancelled, neterr, received, upd, sigUpd, nenv>>
\* send failure: stream closed, queued messages of the request scrubbed, subscriber: abort(net), terminate if the message was terminal
SendFail == /\ Env1 /\ sending # NoMsg /\ sending' = NoMsg /\ closed' = TRUE /\ mq' = <<>> /\ neterr' = neterr + 1
            /\ IF sending.final # "none" THEN /\ task' = (IF Live /\ task = "pending" THEN "none" ELSE task) /\ Term /\ UNCHANGED <<cancelled, sigErr>>
               ELSE /\ task' = (IF Live /\ task = "pending" THEN "none" ELSE task)
                    /\ IF ~Live THEN UNCHANGED <<resp, prot, sigErr>>
                       ELSE IF resp # "running" THEN Term /\ UNCHANGED sigErr
                       ELSE sigErr' = (IF sigErr = "none" THEN "net" ELSE sigErr) /\ UNCHANGED <<resp, prot>>
                    /\ UNCHANGED cancelled
            /\ UNCHANGED <<sigPause, ex, exErr, trav, completed, received, upd, sigUpd>>

Sys == Pop \/ Start \/ Load \/ Txn \/ TxnCont \/ (\E h \in {"ok", "pause", "error"} : Hook(h)) \/ (\E d \in {"none", "error"} : UpdHook(d)) \/ Complete \/ FinalTxn \/ FinishMsg \/ TakeMsg \/ SendOK
Env == (\E h \in {"accept", "reject", "pause", "error"} : New(h)) \/ PeerCancel("P") \/ PeerCancel("Q")
       \/ (\E w \in {"P", "Q"}, d \in {"none", "unpause", "error"} : PeerUpdate(w, d)) \/ QNew \/ CmdCancel \/ PauseCmd \/ SendFail
Next == Sys \/ Env \/ UnpauseCmd
Spec == Init /\ [][Next]_vars /\ WF_vars(Sys) /\ WF_vars(UnpauseCmd)
-----------------------------------------------------------------------------
Quiescent == ~ENABLED Sys /\ ~ENABLED UnpauseCmd
Outcomes == (IF Len(completed) > 0 THEN 1 ELSE 0) + (IF cancelled > 0 THEN 1 ELSE 0) + (IF neterr > 0 THEN 1 ELSE 0)
\* C05
\* (a message that fails on the network after the request was cancelled or completed is still reported to the network-error
\*  listeners; the exclusive outcomes are "completed" and "cancelled")
Retired == (Quiescent /\ received) => /\ resp = "gone" /\ prot = 0 /\ Outcomes >= 1
                                      /\ Len(completed) + cancelled <= 1
ProtSane == prot \in {0, 1}
\* C10: a step caused by Q changes nothing of P's
QInert == [][ (PeerCancel("Q") \/ QNew \/ \E d \in {"none", "unpause", "error"} : PeerUpdate("Q", d)) => UNCHANGED <<resp, sigPause, sigErr, task, ex, exErr, trav, mq, sending, closed, prot, completed, cancelled, neterr>> ]_vars
\* C23 (responder half)
StateAgreesWithQueue == Quiescent => /\ (resp = "queued") = (task = "pending") /\ (resp = "running") = (task = "active")
                                     /\ (resp \in {"paused", "completing", "gone", "none"} => task = "none")
=============================================================================
