--------------------------- MODULE ResponderOracle ---------------------------
(* Judges real executions of ResponderScripts scripts (vh resp-run).  Each line carries the  *)
(* script, the observables of the real responder at quiescence after the run-out (every      *)
(* paused response unpaused, every later send succeeds: the proviso of C05), the final       *)
(* observables the design model (Dev = {}, verified by TLC) reaches for that script, and for  *)
(* scripts with messages from the second peer Q the observation of the same script without   *)
(* them.                                                                                     *)
EXTENDS Naturals, Sequences, FiniteSets, TLC, Json, IOUtils
Cases == ndJsonDeserialize(IOEnv.VERIF_CASES)
VARIABLE n
ToSet(s) == { s[i] : i \in 1..Len(s) }
Obs(c) == c.obs
Finals(c) == ToSet(c.case.finals)
Received(c) == \E i \in 1..Len(c.case.script) : c.case.script[i].ev = "new"

\* ---- C05: exactly one of completed / cancelled, or failed on the network; nothing left behind
C05Problems(c) == LET o == Obs(c) IN
   (IF o.wedged THEN {"response-manager-loop-blocked"} ELSE {})
   \cup (IF ~o.wedged /\ Received(c) /\ o.state # "gone" THEN {"never-retired:" \o o.state} ELSE {})
   \cup (IF Received(c) /\ o.protected # <<>> THEN {"connection-still-protected"} ELSE {})
   \cup (IF ~o.wedged /\ Received(c) /\ o.state = "gone" /\ Len(o.completed) = 0 /\ o.cancelled = 0 /\ o.neterr = 0 THEN {"retired-without-outcome"} ELSE {})
   \cup (IF Len(o.completed) > 1 THEN {"completed-reported-twice"} ELSE {})
   \cup (IF o.cancelled > 1 THEN {"cancel-reported-twice"} ELSE {})
   \cup (IF Len(o.completed) >= 1 /\ o.cancelled >= 1 THEN {"both-completed-and-cancelled"} ELSE {})
   \cup (IF Len(o.protectOps) > 0 /\ o.protectOps[1] # "protect" THEN {"unprotect-before-protect"} ELSE {})
\* ---- C10: compared with the run of the same script without Q's messages
SameAsBaseline(c) == LET o == Obs(c) b == c.baseline IN
   /\ o.state = b.state /\ o.completed = b.completed /\ o.cancelled = b.cancelled /\ (o.neterr > 0) = (b.neterr > 0)
   /\ o.protected = b.protected /\ (Len(o.completed) > 0 => o.blocksToP = b.blocksToP)
C10Problems(c) == IF c.hasQ /\ c.hasBaseline /\ ~SameAsBaseline(c) THEN {"outcome-differs-from-run-without-second-peer"} ELSE {}
\* ---- C23 (responder side), at quiescence
C23Problems(c) == LET o == Obs(c) IN
   (IF o.diag # <<>> THEN {"responder-diagnostics-not-empty"} ELSE {})
   \cup (IF ~o.wedged /\ (o.state = "queued") # (o.task = "pending") THEN {"responder-queued-vs-pending"} ELSE {})
   \cup (IF ~o.wedged /\ (o.state = "running") # (o.task = "active") THEN {"responder-running-vs-active"} ELSE {})
   \cup (IF o.state = "gone" /\ o.qCompleted = <<>> /\ ~c.hasQ /\ (o.activeStats # 0 \/ o.pendingStats # 0) THEN {"responder-stats-not-zero-after-end"} ELSE {})
\* ---- C21 (responder side): the request's work slot is given back, so later requests of the peer still run (per-peer limit 1)
C21Problems(c) == LET o == Obs(c) IN
   (IF ~o.wedged /\ o.state = "gone" /\ o.followUp # "full" THEN {"later-request-of-the-peer-never-executed"} ELSE {})
   \cup (IF ~o.wedged /\ o.state = "gone" /\ o.task # "none" THEN {"work-slot-held-by-retired-request"} ELSE {})
\* conformance with the design model's outcome for the script
Proj(o) == <<o.state, o.completed, o.cancelled, o.neterr > 0>>
ProjF(f) == <<f.resp, f.completed, f.cancelled, f.neterr > 0>>
Conforms(c) == \E f \in Finals(c) : ProjF(f) = Proj(Obs(c))

Init == n = 0
Next == n < Len(Cases) /\ n' = n + 1
SetToSeq(S) == LET RECURSIVE F(_) F(T) == IF T = {} THEN <<>> ELSE LET x == CHOOSE y \in T : TRUE IN <<x>> \o F(T \ {x}) IN F(S)
Judge == n > 0 => LET c == Cases[n] IN
   PrintT(ToJson([id |-> c.case.id, c05 |-> SetToSeq(C05Problems(c)), c10 |-> SetToSeq(C10Problems(c)), c23 |-> SetToSeq(C23Problems(c)), c21 |-> SetToSeq(C21Problems(c)),
                  conforms |-> Conforms(c), desync |-> Obs(c).desync]))
=============================================================================
