CONSTANTS K = 2 Dev = {} MaxEnv = 2
INIT SInit
NEXT SNext
INVARIANT Emit
CHECK_DEADLOCK FALSE
