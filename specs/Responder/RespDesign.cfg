CONSTANTS K = 2 Dev = {} MaxEnv = 4
SPECIFICATION Spec
INVARIANTS Retired ProtSane StateAgreesWithQueue
PROPERTIES QInert
CHECK_DEADLOCK FALSE
