CONSTANTS K = 4 Dev = {} MaxEnv = 9
SPECIFICATION Spec
INVARIANTS Retired ProtSane StateAgreesWithQueue
PROPERTIES QInert
CHECK_DEADLOCK FALSE
