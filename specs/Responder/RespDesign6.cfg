CONSTANTS K = 3 Dev = {} MaxEnv = 6
SPECIFICATION Spec
INVARIANTS Retired ProtSane StateAgreesWithQueue
PROPERTIES QInert
CHECK_DEADLOCK FALSE
