-------------------------- MODULE ResponderScripts --------------------------
(* Environment scripts for the real responder: requests / cancels from P and Q, responder    *)
(* commands, hook decisions, release of the executor's block-load gate, and the outcome of   *)
(* every send, each placed at a point where the harness holds the real executor (storage     *)
(* read of the next block, outgoing block hook) or nothing runs.                             *)
EXTENDS Responder, Json
VARIABLE hist
SInit == Init /\ hist = <<>>
Point == IF ex = "start" THEN "popped" ELSE IF ex = "finishing" THEN "finishing" ELSE IF ex = "updhook" THEN "updhook" ELSE IF ex = "hook" THEN "hook" ELSE IF ex = "txn" THEN "load" ELSE IF ex = "idle" /\ task # "pending" THEN "idle" ELSE "moving"
Auto == Pop \/ Load \/ TxnCont \/ Complete \/ FinalTxn \/ TakeMsg
Stable == Point # "moving" /\ ~ENABLED Auto
Ev(e, a) == [ev |-> e, a |-> a, at |-> Point, k |-> trav]
SNext == \/ Auto /\ hist' = hist
         \* a worker has popped the task and its start message is still in the manager's mailbox: the harness gets messages in
         \* front of it by holding the manager's loop (in the request hook of an unrelated request) while it posts them
         \/ /\ Stable /\ Point = "popped"
            /\ \/ \E w \in {"P", "Q"} : PeerCancel(w) /\ hist' = Append(hist, Ev("cancel", w))
               \/ QNew /\ hist' = Append(hist, Ev("qnew", ""))
               \/ CmdCancel /\ hist' = Append(hist, Ev("cmdcancel", ""))
               \/ PauseCmd /\ hist' = Append(hist, Ev("pause", ""))
               \/ Start /\ hist' = Append(hist, Ev("start", ""))
         \* the worker has queued its last transaction and has not yet told the manager that the task is finished (verif hook of
         \* the query executor): the message can go out, or fail, before the manager hears of the finish
         \/ /\ Stable /\ Point = "finishing"
            /\ \/ SendOK /\ hist' = Append(hist, Ev("sendok", ""))
               \/ SendFail /\ hist' = Append(hist, Ev("sendfail", ""))
               \/ PeerCancel("P") /\ hist' = Append(hist, Ev("cancel", "P"))
               \/ CmdCancel /\ hist' = Append(hist, Ev("cmdcancel", ""))
               \/ FinishMsg /\ hist' = Append(hist, Ev("finish", ""))
         \* the executor is inside the update hook of a stored update
         \/ /\ Stable /\ Point = "updhook"
            /\ \E d \in {"none", "error"} : UpdHook(d) /\ hist' = Append(hist, Ev("updhook", d))
         \/ /\ Stable /\ Point \notin {"popped", "finishing", "updhook"}
            /\ \/ \E d \in (IF resp = "paused" THEN {"loop-none", "loop-unpause", "loop-error"} ELSE {"-"}) :
                    /\ PeerUpdate("P", CASE d = "loop-unpause" -> "unpause" [] d = "loop-error" -> "error" [] OTHER -> "none")
                    /\ hist' = Append(hist, Ev("update", "P:" \o d))
               \/ PeerUpdate("Q", "none") /\ hist' = Append(hist, Ev("update", "Q:-"))
               \/ \E h \in {"accept", "reject", "pause", "error"} : New(h) /\ hist' = Append(hist, Ev("new", h))
               \/ \E w \in {"P", "Q"} : PeerCancel(w) /\ hist' = Append(hist, Ev("cancel", w))
               \/ QNew /\ hist' = Append(hist, Ev("qnew", ""))
               \/ CmdCancel /\ hist' = Append(hist, Ev("cmdcancel", ""))
               \/ PauseCmd /\ hist' = Append(hist, Ev("pause", ""))
               \/ UnpauseCmd /\ hist' = Append(hist, Ev("unpause", ""))
               \/ SendFail /\ hist' = Append(hist, Ev("sendfail", ""))
               \/ SendOK /\ hist' = Append(hist, Ev("sendok", ""))
               \/ Txn /\ hist' = Append(hist, Ev("go", ""))
               \/ \E h \in {"ok", "pause", "error"} : Hook(h) /\ hist' = Append(hist, Ev("hook", h))
Quiet == Stable /\ Point = "idle" /\ sending = NoMsg /\ resp # "paused"
Final == [resp |-> resp, completed |-> completed, cancelled |-> cancelled, neterr |-> neterr, prot |-> prot, task |-> task]
Emit == (Quiet /\ received) => PrintT(ToJson([script |-> hist, final |-> Final]))
=============================================================================
