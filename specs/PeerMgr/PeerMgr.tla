------------------------------- MODULE PeerMgr -------------------------------
(* Peer table of the peer message manager (peermanager/peermanager.go) for one peer, with   *)
(* the life cycle of its message queues (messagequeue runQueue goroutines).                  *)
(* Connected / Disconnected keep a reference count; a send (GetProcess) creates a queue if  *)
(* none is in the table; a queue shuts itself down when it cannot connect; an exiting queue *)
(* calls back to remove its table entry -- by peer id only in the code                      *)
(* (deviation "ShutdownCallbackByPeerId"), by identity in the design.                       *)
(* Property C17: at most one live queue, none outlives the last disconnect.                 *)
EXTENDS Integers, Sequences, FiniteSets, TLC
CONSTANTS MaxQueues, MaxEvents, Dev
VARIABLES table,    \* <<>> or <<[ref, q]>> : the entry for the peer
          qs,       \* [1..MaxQueues -> {"unborn","live","stopping","dead"}]
          conns,    \* connections currently open to the peer (environment)
          nev
vars == <<table, qs, conns, nev>>
Init == table = <<>> /\ qs = [q \in 1..MaxQueues |-> "unborn"] /\ conns = 0 /\ nev = 0
Fresh == { q \in 1..MaxQueues : qs[q] = "unborn" }
NewQ == CHOOSE q \in Fresh : \A r \in Fresh : q <= r
Step == nev < MaxEvents /\ nev' = nev + 1
\* Connected notification
Connected == /\ Step /\ conns' = conns + 1
             /\ IF table = <<>> THEN Fresh # {} /\ table' = <<[ref |-> 1, q |-> NewQ]>> /\ qs' = [qs EXCEPT ![NewQ] = "live"]
                ELSE table' = <<[table[1] EXCEPT !.ref = @ + 1]>> /\ qs' = qs
\* Disconnected notification
Disconnected == /\ Step /\ conns > 0 /\ conns' = conns - 1
                /\ IF table = <<>> THEN UNCHANGED <<table, qs>>
                   ELSE IF table[1].ref - 1 > 0 THEN table' = <<[table[1] EXCEPT !.ref = @ - 1]>> /\ qs' = qs
                   ELSE table' = <<>> /\ qs' = [qs EXCEPT ![table[1].q] = IF @ = "live" THEN "stopping" ELSE @]
\* a message is queued for the peer
Send == /\ Step /\ conns' = conns
        /\ IF table = <<>> THEN Fresh # {} /\ table' = <<[ref |-> 0, q |-> NewQ]>> /\ qs' = [qs EXCEPT ![NewQ] = "live"]
           ELSE UNCHANGED <<table, qs>>
\* a queue cannot reach the peer (only when no connection is open) and shuts itself down
SelfShutdown(q) == /\ qs[q] = "live" /\ conns = 0 /\ qs' = [qs EXCEPT ![q] = "stopping"] /\ UNCHANGED <<table, conns, nev>>
\* the queue goroutine exits and calls back
Exit(q) == /\ qs[q] = "stopping" /\ qs' = [qs EXCEPT ![q] = "dead"]
           /\ table' = IF table # <<>> /\ ("ShutdownCallbackByPeerId" \in Dev \/ table[1].q = q) THEN <<>> ELSE table
           /\ UNCHANGED <<conns, nev>>
Next == Connected \/ Disconnected \/ Send \/ \E q \in 1..MaxQueues : SelfShutdown(q) \/ Exit(q)
Spec == Init /\ [][Next]_vars /\ \A q \in 1..MaxQueues : WF_vars(Exit(q)) /\ WF_vars(SelfShutdown(q))
Live == { q \in 1..MaxQueues : qs[q] = "live" }
OneLiveQueue == Cardinality(Live) <= 1
TableHoldsTheLiveQueue == \A q \in Live : table # <<>> /\ table[1].q = q
Quiet == \A q \in 1..MaxQueues : ~ENABLED Exit(q) /\ ~ENABLED SelfShutdown(q)
NoneOutlivesLastDisconnect == (Quiet /\ conns = 0) => Live = {}
=============================================================================
