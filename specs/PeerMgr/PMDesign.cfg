CONSTANTS MaxQueues = 4 MaxEvents = 6 Dev = {}
INIT Init
NEXT Next
INVARIANTS OneLiveQueue TableHoldsTheLiveQueue NoneOutlivesLastDisconnect
CHECK_DEADLOCK FALSE
