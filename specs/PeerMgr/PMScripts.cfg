CONSTANTS MaxQueues = 4 MaxEvents = 5 Dev = {}
INIT SInit
NEXT SNext
INVARIANT Emit
CHECK_DEADLOCK FALSE
