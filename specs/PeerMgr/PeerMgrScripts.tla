--------------------------- MODULE PeerMgrScripts ---------------------------
EXTENDS PeerMgr, Json
VARIABLE hist
SInit == Init /\ hist = <<>>
Ev(e, q) == [ev |-> e, q |-> q]
SNext == \/ Connected /\ hist' = Append(hist, Ev("connected", 0))
         \/ Disconnected /\ hist' = Append(hist, Ev("disconnected", 0))
         \/ Send /\ hist' = Append(hist, Ev("send", 0))
         \/ \E q \in 1..MaxQueues : SelfShutdown(q) /\ hist' = Append(hist, Ev("selfshutdown", q))
         \/ \E q \in 1..MaxQueues : Exit(q) /\ hist' = Append(hist, Ev("exit", q))
Emit == (nev = MaxEvents /\ Quiet) => PrintT(ToJson([script |-> hist, live |-> Cardinality(Live), conns |-> conns]))
=============================================================================
