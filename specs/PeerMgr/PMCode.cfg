CONSTANTS MaxQueues = 4 MaxEvents = 6 Dev = {"ShutdownCallbackByPeerId"}
INIT Init
NEXT Next
INVARIANTS OneLiveQueue TableHoldsTheLiveQueue NoneOutlivesLastDisconnect
CHECK_DEADLOCK FALSE
