------------------------- MODULE LinkTrackerGraph -------------------------
EXTENDS LinkTracker, Json
VARIABLE act
GInit == Init /\ act = [op |-> "init"]
GNext == \E r \in Reqs :
          \/ \E k \in Keys : DedupKey(r, k) /\ act' = [op |-> "dedup", r |-> r, k |-> k]
          \/ \E l \in Links : \/ Ignore(r, l) /\ act' = [op |-> "ignore", r |-> r, l |-> l]
                              \/ Record(r, l, TRUE) /\ act' = [op |-> "record", r |-> r, l |-> l, has |-> TRUE]
                              \/ Record(r, l, FALSE) /\ act' = [op |-> "record", r |-> r, l |-> l, has |-> FALSE]
          \/ \E n \in 1..MaxSkip : SkipFirst(r, n) /\ act' = [op |-> "skip", r |-> r, n |-> n]
          \/ Finish(r) /\ act' = [op |-> "finish", r |-> r]
          \/ FinishAgain(r) /\ act' = [op |-> "finish", r |-> r]
GView == View
Emit == PrintT(ToJson([ from |-> ToString(View), to |-> ToString(View'), act |-> act',
                        out |-> [out' EXCEPT !.op = out'.op],
                        idle |-> ~Tracked' ]))
=============================================================================
