CONSTANTS Reqs = {"r1","r2"} Links = {"x","y"} Keys = {"k1"} MaxTrav = 2 MaxSkip = 1
INIT Init
NEXT Next
INVARIANTS RefsExact AtMostOnce NoStateWhenIdle NoOrphanScope
PROPERTIES SendOnlyWhenUntracked
CHECK_DEADLOCK FALSE
