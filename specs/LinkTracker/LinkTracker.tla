---------------------------- MODULE LinkTracker ----------------------------
(* Per-peer link tracking of the responder (linktracker/linktracker.go and                 *)
(* responsemanager/responseassembler/peerlinktracker.go), as driven through the            *)
(* ResponseAssembler stream API.  Each call holds linkTrackerLk: one action per call.      *)
(* Property C19: per dedup scope a block is sent at most once while a request that         *)
(* traversed it is in progress; when all are finished nothing is tracked and the block is  *)
(* sent again; a request is complete-full iff it met no missing block.                     *)
EXTENDS Naturals, Sequences, FiniteSets, TLC
CONSTANTS Reqs, Links, Keys, MaxTrav, MaxSkip

Scopes == Keys \cup {"default"}
VARIABLES phase,    \* [Reqs -> {"new","run","done"}]  new: nothing recorded yet
          key,      \* [Reqs -> Scopes]                dedup key assigned ("default" = none)
          refs,     \* [Scopes -> [Links -> Nat]]      traversalsWithBlocksInProgress per tracker
          held,     \* [Reqs -> Seq(Links)]            linksWithBlocksTraversedByRequest
          missing,  \* [Reqs -> SUBSET Links]
          count,    \* [Reqs -> Nat]                   blockSentCount
          skip,     \* [Reqs -> Nat]                   skipFirstBlocks
          alt,      \* SUBSET Keys                     existing alternative trackers
          out,      \* observable result of the last call
          sent      \* ghost: [Scopes -> [Links -> SUBSET Reqs]] live requests that got the block sent
vars == <<phase, key, refs, held, missing, count, skip, alt, out, sent>>

Init == /\ phase = [r \in Reqs |-> "new"] /\ key = [r \in Reqs |-> "default"]
        /\ refs = [s \in Scopes |-> [l \in Links |-> 0]]
        /\ held = [r \in Reqs |-> <<>>] /\ missing = [r \in Reqs |-> {}]
        /\ count = [r \in Reqs |-> 0] /\ skip = [r \in Reqs |-> 0]
        /\ alt = {} /\ out = [op |-> "init"]
        /\ sent = [s \in Scopes |-> [l \in Links |-> {}]]

\* ---- calls made while a request is being prepared (prepareQuery order: key, ignore, skip)
DedupKey(r, k) ==
  /\ phase[r] = "new" /\ key[r] = "default" /\ held[r] = <<>>
  /\ key' = [key EXCEPT ![r] = k] /\ alt' = alt \cup {k}
  /\ out' = [op |-> "dedup"]
  /\ UNCHANGED <<phase, refs, held, missing, count, skip, sent>>

Ignore(r, l) ==    \* one link of the do-not-send-cids list
  /\ phase[r] = "new" /\ Len(held[r]) < MaxTrav
  /\ held' = [held EXCEPT ![r] = Append(@, l)]
  /\ refs' = [refs EXCEPT ![key[r]][l] = @ + 1]
  /\ out' = [op |-> "ignore"]
  /\ UNCHANGED <<phase, key, missing, count, skip, alt, sent>>

SkipFirst(r, n) ==
  /\ phase[r] = "new" /\ skip[r] = 0 /\ n > 0
  /\ skip' = [skip EXCEPT ![r] = n]
  /\ out' = [op |-> "skip"]
  /\ UNCHANGED <<phase, key, refs, held, missing, count, alt, sent>>

\* ---- one link visit of the traversal (SendResponse inside a transaction)
Record(r, l, has) ==
  /\ phase[r] \in {"new", "run"} /\ count[r] < MaxTrav
  /\ LET c == count[r] + 1
         send == has /\ skip[r] < c /\ refs[key[r]][l] = 0
     IN /\ count' = [count EXCEPT ![r] = c]
        /\ phase' = [phase EXCEPT ![r] = "run"]
        /\ IF has THEN /\ held' = [held EXCEPT ![r] = Append(@, l)]
                       /\ refs' = [refs EXCEPT ![key[r]][l] = @ + 1]
                       /\ missing' = missing
                  ELSE /\ missing' = [missing EXCEPT ![r] = @ \cup {l}]
                       /\ UNCHANGED <<held, refs>>
        /\ out' = [op |-> "record", send |-> send, index |-> c]
        /\ sent' = IF send THEN [sent EXCEPT ![key[r]][l] = @ \cup {r}] ELSE sent
  /\ UNCHANGED <<key, skip, alt>>

RECURSIVE DecAll(_, _)
DecAll(f, s) == IF s = <<>> THEN f ELSE DecAll([f EXCEPT ![Head(s)] = @ - 1], Tail(s))

\* ---- FinishRequest / FinishWithError / ClearRequest: all are FinishTracking
Finish(r) ==
  /\ phase[r] # "done"
  /\ LET k == key[r]
         others == { q \in Reqs \ {r} : key[q] = k /\ phase[q] # "done" }
     IN /\ refs' = [refs EXCEPT ![k] = DecAll(@, held[r])]
        /\ alt' = IF k # "default" /\ others = {} THEN alt \ {k} ELSE alt
        /\ out' = [op |-> "finish", full |-> (missing[r] = {})]
        /\ sent' = [s \in Scopes |-> [l \in Links |-> sent[s][l] \ {r}]]
  /\ phase' = [phase EXCEPT ![r] = "done"]
  /\ key' = [key EXCEPT ![r] = "default"]
  /\ held' = [held EXCEPT ![r] = <<>>] /\ missing' = [missing EXCEPT ![r] = {}]
  /\ count' = [count EXCEPT ![r] = 0] /\ skip' = [skip EXCEPT ![r] = 0]

\* a second ClearRequest on a finished request is a no-op that reports "full"
FinishAgain(r) ==
  /\ phase[r] = "done"
  /\ out' = [op |-> "finish", full |-> TRUE]
  /\ UNCHANGED <<phase, key, refs, held, missing, count, skip, alt, sent>>

Next == \E r \in Reqs :
          \/ \E k \in Keys : DedupKey(r, k)
          \/ \E l \in Links : Ignore(r, l) \/ Record(r, l, TRUE) \/ Record(r, l, FALSE)
          \/ \E n \in 1..MaxSkip : SkipFirst(r, n)
          \/ Finish(r) \/ FinishAgain(r)
Spec == Init /\ [][Next]_vars
-----------------------------------------------------------------------------
Occ(s, l) == Cardinality({ i \in 1..Len(s) : s[i] = l })
Live(s) == { r \in Reqs : phase[r] # "done" /\ key[r] = s }
\* implementation invariant: a tracker's refcount is the number of recorded traversals by live requests
RefsExact == \A s \in Scopes, l \in Links :
               refs[s][l] = LET f == [r \in Live(s) |-> Occ(held[r], l)]
                                RECURSIVE S(_) S(R) == IF R = {} THEN 0 ELSE LET x == CHOOSE y \in R : TRUE IN f[x] + S(R \ {x})
                            IN S(Live(s))
\* C19 (1): at most one live request per (scope, block) was actually sent the block
AtMostOnce == \A s \in Scopes, l \in Links : Cardinality(sent[s][l]) <= 1
\* C19 (1'): a send happens only when no live request of the scope has traversed the block
SendOnlyWhenUntracked ==
  [][\A r \in Reqs, l \in Links :
       (out'.op = "record" /\ out'.send /\ count'[r] = count[r] + 1 /\ held'[r] = Append(held[r], l))
          => \A q \in Live(key[r]) : Occ(held[q], l) = 0]_vars
\* C19 (2): once all requests have finished nothing is tracked ...
AllDone == \A r \in Reqs : phase[r] = "done"
Tracked == \/ \E s \in Scopes, l \in Links : refs[s][l] # 0
           \/ alt # {} \/ \E r \in Reqs : held[r] # <<>> \/ missing[r] # {} \/ count[r] # 0 \/ skip[r] # 0 \/ key[r] # "default"
NoStateWhenIdle == (\A r \in Reqs : phase[r] \in {"done"}) => ~Tracked
\* ... and scopes with no live request never keep a tracker
NoOrphanScope == \A k \in Keys : (k \in alt) <=> (\E r \in Reqs : key[r] = k /\ phase[r] # "done")
\* C19 (3) is carried by out.full in Finish: full <=> missing[r] = {}, with missing exact:
View == <<phase, key, refs, held, missing, count, skip, alt>>
=============================================================================
