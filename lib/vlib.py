"""Common plumbing for the /verif checks: build the Go harness from /repo's working tree,
run TLC in a scratch copy of a spec directory, parse its statistics, known-findings handling,
evidence files.  Exit codes: 0 property held, 1 violation (VIOLATION line), 2 infrastructure."""
import json, os, re, shutil, subprocess, sys, tempfile, time, hashlib

VERIF = os.path.dirname(os.path.dirname(os.path.abspath(__file__)))
REPO = os.environ.get("VERIF_REPO", "/repo")
BUILD = os.path.join(VERIF, ".build")
SPECS = os.path.join(VERIF, "specs")
EVID = os.path.join(VERIF, "evidence")
REPLAY = os.path.join(VERIF, "replays")
TLA_CP = "/opt/veriftools/tla/tla2tools.jar:/opt/veriftools/tla/CommunityModules-deps.jar"
NCPU = os.cpu_count() or 4


class Infra(Exception):
    """Infrastructure failure (exit 2): never a verdict."""


def goenv():
    e = dict(os.environ)
    e["GOFLAGS"] = "-mod=mod"
    e["GOPROXY"] = "off"
    e.pop("GOSUMDB", None)       # GOSUMDB=off breaks the offline toolchain switch in this image
    e.pop("GOTOOLCHAIN", None)
    e.setdefault("GOCACHE", os.path.expanduser("~/.cache/go-build"))
    return e


def log(*a):
    print(*a, file=sys.stderr, flush=True)


_built = {}


def build_harness(tags="verif"):
    """(Re)build the harness binary against /repo's current working tree."""
    if tags in _built:
        return _built[tags]
    os.makedirs(BUILD, exist_ok=True)
    h = os.path.join(VERIF, "harness")
    shutil.copyfile(os.path.join(REPO, "go.sum"), os.path.join(h, "go.sum"))
    out = os.path.join(BUILD, "vh-" + (tags or "notag"))
    t0 = time.time()
    cmd = ["go", "build", "-o", out]
    if tags:
        cmd += ["-tags", tags]
    cmd += ["./cmd/vh"]
    r = subprocess.run(cmd, cwd=h, env=goenv(), capture_output=True, text=True)
    if r.returncode != 0:
        raise Infra("harness build failed:\n" + r.stdout + r.stderr)
    log("harness built in %.1fs" % (time.time() - t0))
    _built[tags] = out
    return out


def run_vh(args, tags="verif", timeout=3600, env=None, stdin=None, check=True):
    exe = build_harness(tags)
    e = goenv()
    if env:
        e.update(env)
    r = subprocess.run([exe] + [str(a) for a in args], capture_output=True, text=True, env=e,
                       timeout=timeout, input=stdin)
    if check and r.returncode != 0:
        raise Infra("vh %s failed rc=%d:\n%s\n%s" % (args[0], r.returncode, r.stdout[-3000:], r.stderr[-6000:]))
    return r


class TLCResult:
    def __init__(self, rc, out, wall):
        self.rc, self.out, self.wall = rc, out, wall
        self.generated = self.distinct = 0
        m = re.findall(r"(\d[\d,]*) states generated, (\d[\d,]*) distinct states found", out)
        if m:
            self.generated = int(m[-1][0].replace(",", ""))
            self.distinct = int(m[-1][1].replace(",", ""))
        self.violation = None
        m = re.search(r"Error: Invariant (\S+) is violated", out)
        if m:
            self.violation = m.group(1)
        m = re.search(r"Error: Action property (\S+) is violated", out)
        if m:
            self.violation = m.group(1)
        if "Temporal properties were violated" in out or re.search(r"Temporal property \S+ was violated", out):
            self.violation = "temporal"
        self.ok = (rc == 0) and "Model checking completed. No error has been found." in out
        self.post_failed = "is violated" in out and "POSTCONDITION" in out.upper() or "Postcondition" in out and "violated" in out
        self.deadlock = "Deadlock reached" in out

    def printed(self):
        """Lines printed by PrintT/Print (JSON strings come back quoted)."""
        res = []
        for ln in self.out.splitlines():
            if ln.startswith('"') and ln.endswith('"'):
                res.append(json.loads(ln))
        return res


def run_tlc(module_dir, tla, cfg, workers=None, env=None, timeout=1800, extra=(), keep=None,
            coverage=False, xss="64m", heap=None, simulate=None, deque=False):
    """Run TLC on specs/<module_dir>/<tla> with <cfg> in a scratch copy; returns TLCResult."""
    src = os.path.join(SPECS, module_dir)
    tmp = tempfile.mkdtemp(prefix="vtlc-")
    try:
        for d in (src, os.path.join(SPECS, "common")):
            if os.path.isdir(d):
                for f in os.listdir(d):
                    if f.endswith((".tla", ".cfg")):
                        shutil.copy(os.path.join(d, f), tmp)
        e = dict(os.environ)
        jopts = "-Xss" + xss
        if heap:
            jopts += " -Xmx" + heap
        if deque:
            jopts += " -Dtlc2.tool.queue.IStateQueue=StateDeque"
        e["JAVA_TOOL_OPTIONS"] = jopts
        if env:
            e.update({k: str(v) for k, v in env.items()})
        cmd = ["java", "-XX:+UseParallelGC", "-cp", TLA_CP, "tlc2.TLC",
               "-workers", str(workers or "auto"), "-metadir", os.path.join(tmp, "meta"),
               "-config", cfg]
        if coverage:
            cmd += ["-coverage", "1"]
        if simulate:
            cmd += ["-simulate", simulate]
        cmd += list(extra) + [tla]
        t0 = time.time()
        try:
            r = subprocess.run(cmd, cwd=tmp, env=e, capture_output=True, text=True, timeout=timeout)
        except subprocess.TimeoutExpired:
            raise Infra("TLC timeout on %s/%s %s" % (module_dir, tla, cfg))
        res = TLCResult(r.returncode, r.stdout + r.stderr, time.time() - t0)
        if keep:
            for f in keep:
                p = os.path.join(tmp, f)
                if os.path.exists(p):
                    shutil.copy(p, keep[f])
        return res
    finally:
        shutil.rmtree(tmp, ignore_errors=True)


def spec_cache(module_dir, tag, producer):
    """Enumerations that depend on the specification only (never on /repo) are cached under .build/cache,
    keyed by the content of the spec directory; `./check --setup` warms them."""
    h = hashlib.sha1()
    d = os.path.join(SPECS, module_dir)
    for f in sorted(os.listdir(d)):
        if f.endswith(".tla"):
            h.update(f.encode())
            h.update(open(os.path.join(d, f), "rb").read())
    h.update(tag.encode())
    cdir = os.path.join(BUILD, "cache")
    os.makedirs(cdir, exist_ok=True)
    path = os.path.join(cdir, "%s-%s.json" % (module_dir, h.hexdigest()[:16]))
    if os.path.exists(path):
        try:
            return json.load(open(path))
        except Exception:
            os.remove(path)
    val = producer()
    tmp = path + ".%d.tmp" % os.getpid()
    with open(tmp, "w") as f:
        json.dump(val, f)
    os.replace(tmp, path)
    return val


def tlc_must_pass(res, what):
    if not res.ok:
        raise Infra("TLC did not complete cleanly on %s (rc=%d)\n%s" % (what, res.rc, res.out[-4000:]))
    return res


# ---------------------------------------------------------------- known findings
def load_known():
    """known-findings.txt lines:
         finding: property=<id> sig=<signature> <what fails>
         fixed: property=<id> <commit> <what failed>
       Only 'finding:' lines suppress; signature must match exactly."""
    res = {}
    p = os.path.join(VERIF, "known-findings.txt")
    if not os.path.exists(p):
        return res
    for ln in open(p):
        ln = ln.strip()
        m = re.match(r"finding:\s+property=(\S+)\s+sig=(\S+)\s+(.*)", ln)
        if m:
            res.setdefault(m.group(1), {})[m.group(2)] = m.group(3)
    return res


class Verdict:
    """Collects violations for one property run, classifies them against known-findings,
    prints the interface lines and writes evidence."""

    def __init__(self, pid, tier, seed, level):
        self.pid, self.tier, self.seed, self.level = pid, tier, seed, level
        self.t0 = time.time()
        self.known = load_known().get(pid, {})
        self.new = []          # (sig, description, replay-path)
        self.known_hit = {}    # sig -> count
        self.cov = {}
        self.assumptions = []
        # replays of earlier runs of this property are stale
        if os.path.isdir(REPLAY):
            for f in os.listdir(REPLAY):
                if f.startswith(pid + "-"):
                    os.remove(os.path.join(REPLAY, f))

    def violation(self, sig, desc, replay_obj):
        """sig: stable signature of the failing input/call site/history class."""
        if sig in self.known:
            self.known_hit[sig] = self.known_hit.get(sig, 0) + 1
            return False
        os.makedirs(REPLAY, exist_ok=True)
        h = hashlib.sha1(json.dumps(replay_obj, sort_keys=True, default=str).encode()).hexdigest()[:10]
        path = os.path.join(REPLAY, "%s-%s.json" % (self.pid, h))
        with open(path, "w") as f:
            json.dump({"property": self.pid, "sig": sig, "desc": desc, "case": replay_obj}, f, indent=1, default=str)
        self.new.append((sig, desc, path))
        return True

    def finish(self, coverage, assumptions=()):
        cov = dict(coverage)
        cov.update(self.cov)
        cov["known_findings_hit"] = {k: v for k, v in self.known_hit.items()}
        ev = {"property_id": self.pid, "tier": self.tier, "seed": self.seed, "level": self.level,
              "coverage": cov, "assumptions": list(assumptions) + self.assumptions,
              "wall_s": round(time.time() - self.t0, 2), "violations": len(self.new)}
        os.makedirs(EVID, exist_ok=True)
        with open(os.path.join(EVID, self.pid + ".json"), "w") as f:
            json.dump(ev, f, indent=1, default=str)
        for sig, n in sorted(self.known_hit.items()):
            print("KNOWN-FINDING: property=%s %s [sig=%s, %d case(s) this run]" % (self.pid, self.known[sig], sig, n))
        # one line per distinct signature first, at most 12 lines in total
        seen, shown = set(), 0
        for sig, desc, path in sorted(self.new, key=lambda x: (x[0] in seen, 0)):
            if shown >= 12 or (sig in seen and shown >= 4):
                continue
            seen.add(sig)
            shown += 1
            print("VIOLATION property=%s replay=%s" % (self.pid, path))
            print("  " + desc[:600])
        if len(self.new) > shown:
            print("  ... %d further violating cases (%d distinct signatures) written under replays/" % (len(self.new) - shown, len({s for s, _, _ in self.new})))
        sys.stdout.flush()
        return 1 if self.new else 0


def seed_tier(argv):
    import argparse
    ap = argparse.ArgumentParser()
    ap.add_argument("pid")
    ap.add_argument("--tier", default=os.environ.get("VERIF_TIER", "quick"))
    ap.add_argument("--replay")
    a = ap.parse_args(argv)
    seed = int(os.environ.get("VERIF_SEED", "1") or "1")
    return a.pid, a.tier, seed, a.replay
