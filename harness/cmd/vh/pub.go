package main

import (
	"encoding/json"
	"flag"
	"fmt"
	"math/rand"
	"os"
	"sync"
	"time"

	"github.com/ipfs/go-graphsync/notifications"
)

func init() {
	register("pub-replay", pubReplay)
}

type pubCb struct {
	Kind string // next | close
	Ev   int
}

type recSub struct {
	name string
	mu   *sync.Mutex
	log  map[string][]pubCb // per topic
	n    *int
}

func (r *recSub) OnNext(t notifications.Topic, e notifications.Event) {
	r.mu.Lock()
	r.log[t.(string)] = append(r.log[t.(string)], pubCb{"next", e.(int)})
	*r.n++
	r.mu.Unlock()
}
func (r *recSub) OnClose(t notifications.Topic) {
	r.mu.Lock()
	r.log[t.(string)] = append(r.log[t.(string)], pubCb{"close", 0})
	*r.n++
	r.mu.Unlock()
}

type fenceSub struct{ ch chan int }

func (f *fenceSub) OnNext(t notifications.Topic, e notifications.Event) { f.ch <- e.(int) }
func (f *fenceSub) OnClose(t notifications.Topic)                       {}

type pubSut struct {
	p       notifications.Publisher
	mu      sync.Mutex
	subs    map[string]*recSub
	total   int
	fence   *fenceSub
	fenceN  int
	closed  bool
	settled bool
	nPub    int
	// expected per (sub, topic) history, accumulated from the model's deltas (burst mode)
	exp     map[string]map[string][]pubCb
	barrier bool
}

func newPubSut(barrier bool) *pubSut {
	s := &pubSut{p: notifications.NewPublisher(), subs: map[string]*recSub{}, fence: &fenceSub{make(chan int, 1)},
		exp: map[string]map[string][]pubCb{}, barrier: barrier}
	s.p.Startup()
	s.p.Subscribe("__fence", s.fence)
	return s
}

func (s *pubSut) Close() {
	if !s.closed {
		s.p.Shutdown()
	}
}

func (s *pubSut) sub(name string) *recSub {
	r, ok := s.subs[name]
	if !ok {
		r = &recSub{name: name, mu: &s.mu, log: map[string][]pubCb{}, n: &s.total}
		s.subs[name] = r
	}
	return r
}

// sync waits until every command queued so far has been processed.
func (s *pubSut) sync(expectTotal int) error {
	if s.closed && s.settled {
		return nil // the processing goroutine has already delivered everything and exited
	}
	if !s.closed {
		s.fenceN++
		s.p.Publish("__fence", s.fenceN)
		select {
		case v := <-s.fence.ch:
			if v != s.fenceN {
				return fmt.Errorf("fence out of order")
			}
		case <-time.After(5 * time.Second):
			return fmt.Errorf("publisher did not process its queue within 5s")
		}
		return nil
	}
	// after Shutdown no fence is possible: wait for the expected callbacks, then settle
	deadline := time.Now().Add(3 * time.Second)
	for {
		s.mu.Lock()
		n := s.total
		s.mu.Unlock()
		if n >= expectTotal || time.Now().After(deadline) {
			break
		}
		time.Sleep(200 * time.Microsecond)
	}
	time.Sleep(2 * time.Millisecond)
	s.settled = true
	return nil
}

type pubAct struct {
	Op string `json:"op"`
	T  string `json:"t"`
	S  string `json:"s"`
}
type pubOut struct {
	Ok bool                         `json:"ok"`
	Cb map[string]map[string]string `json:"cb"`
}

func (s *pubSut) snapshotLens() map[string]map[string]int {
	s.mu.Lock()
	defer s.mu.Unlock()
	res := map[string]map[string]int{}
	for n, r := range s.subs {
		res[n] = map[string]int{}
		for t, l := range r.log {
			res[n][t] = len(l)
		}
	}
	return res
}

func (s *pubSut) call(a pubAct) bool {
	ok := !s.closed
	switch a.Op {
	case "sub":
		ok = s.p.Subscribe(a.T, s.sub(a.S))
	case "unsub":
		ok = s.p.Unsubscribe(s.sub(a.S))
	case "pub":
		s.nPub++
		s.p.Publish(a.T, s.nPub)
	case "close":
		s.p.Close(a.T)
	case "shutdown":
		s.p.Shutdown()
		s.closed = true
	}
	return ok
}

// Apply (barrier mode): one call, wait for its processing, report the callbacks it caused.
func (s *pubSut) Apply(raw json.RawMessage, edge map[string]json.RawMessage) (any, error) {
	var a pubAct
	if err := json.Unmarshal(raw, &a); err != nil {
		return nil, err
	}
	before := s.snapshotLens()
	wasClosed := s.closed
	ok := s.call(a)
	exp := s.total
	if edge != nil && a.Op == "shutdown" && !wasClosed {
		var o pubOut
		json.Unmarshal(edge["out"], &o)
		for _, m := range o.Cb {
			for _, v := range m {
				if v != "none" {
					exp++
				}
			}
		}
	}
	if err := s.sync(exp); err != nil {
		return nil, err
	}
	if a.Op == "shutdown" && edge == nil && !wasClosed {
		time.Sleep(3 * time.Millisecond)
	}
	out := pubOut{Ok: ok, Cb: map[string]map[string]string{}}
	s.mu.Lock()
	defer s.mu.Unlock()
	// the model's out lists every (sub, topic); fill from edge if available, else from known subs
	var model pubOut
	if edge != nil {
		json.Unmarshal(edge["out"], &model)
	}
	for sn, m := range model.Cb {
		out.Cb[sn] = map[string]string{}
		for tn := range m {
			out.Cb[sn][tn] = "none"
		}
	}
	for sn, r := range s.subs {
		if out.Cb[sn] == nil {
			out.Cb[sn] = map[string]string{}
		}
		for tn, l := range r.log {
			nb := before[sn][tn]
			switch {
			case len(l) == nb:
				if _, ok := out.Cb[sn][tn]; !ok {
					out.Cb[sn][tn] = "none"
				}
			case len(l) == nb+1:
				out.Cb[sn][tn] = l[nb].Kind
				if l[nb].Kind == "next" && l[nb].Ev != s.nPub {
					return nil, fmt.Errorf("subscriber %s got event %d on %s, published %d", sn, l[nb].Ev, tn, s.nPub)
				}
			default:
				return nil, fmt.Errorf("subscriber %s got %d callbacks on topic %s for one call", sn, len(l)-nb, tn)
			}
		}
	}
	return out, nil
}

// pubReplay: per-edge replay + random walks with a barrier after every call, then "burst" walks:
// calls issued back to back, one barrier at the end, per (subscriber, topic) history compared with
// the concatenation of the model's per-call deltas.
func pubReplay(args []string) error {
	fs := flag.NewFlagSet("pub-replay", flag.ExitOnError)
	edges := fs.String("edges", "", "")
	walks := fs.Int("walks", 0, "")
	bursts := fs.Int("bursts", 0, "")
	depth := fs.Int("depth", 16, "")
	seed := fs.Int64("seed", 1, "")
	fs.Parse(args)
	out, err := replayGraph(*edges, func() sut { return newPubSut(true) }, 20, walkOpts{*walks, *depth, *seed})
	if err != nil {
		return err
	}
	// burst walks
	g, initKey, err := loadAdj(*edges)
	if err != nil {
		return err
	}
	rng := rand.New(rand.NewSource(*seed + 7))
	var mism []gMismatch
	if m, ok := out["mismatches"].([]gMismatch); ok {
		mism = m
	}
	nb := 0
	for w := 0; w < *bursts && len(mism) < 20; w++ {
		s := newPubSut(false)
		cur := initKey
		var path []json.RawMessage
		exp := map[string]map[string][]pubCb{}
		expTotal := 0
		for d := 0; d < *depth; d++ {
			outs := g[cur]
			if len(outs) == 0 {
				break
			}
			e := outs[rng.Intn(len(outs))]
			var a pubAct
			json.Unmarshal(e.act, &a)
			var o pubOut
			json.Unmarshal(e.out, &o)
			ok := s.call(a)
			path = append(path, e.act)
			if ok != o.Ok && (a.Op == "sub" || a.Op == "unsub") {
				mism = append(mism, gMismatch{path, e.act, e.out, ok, "return value differs (burst)"})
				break
			}
			for sn, m := range o.Cb {
				for tn, v := range m {
					if v == "none" {
						continue
					}
					if exp[sn] == nil {
						exp[sn] = map[string][]pubCb{}
					}
					ev := 0
					if v == "next" {
						ev = s.nPub
					}
					exp[sn][tn] = append(exp[sn][tn], pubCb{v, ev})
					expTotal++
				}
			}
			cur = e.to
		}
		if err := s.sync(expTotal); err != nil {
			mism = append(mism, gMismatch{path, nil, nil, nil, err.Error()})
			continue
		}
		s.mu.Lock()
		got := map[string]map[string][]pubCb{}
		for sn, r := range s.subs {
			for tn, l := range r.log {
				if len(l) > 0 {
					if got[sn] == nil {
						got[sn] = map[string][]pubCb{}
					}
					got[sn][tn] = append([]pubCb(nil), l...)
				}
			}
		}
		s.mu.Unlock()
		gb, _ := json.Marshal(got)
		eb, _ := json.Marshal(exp)
		if string(gb) != string(eb) {
			mism = append(mism, gMismatch{path, nil, eb, got, "per (subscriber, topic) callback history differs from the model (burst walk)"})
		}
		s.Close()
		nb++
	}
	out["mismatches"] = mism
	out["bursts"] = nb
	return json.NewEncoder(os.Stdout).Encode(out)
}
