package main

import (
	"bytes"
	"context"
	"encoding/json"
	"flag"
	"fmt"
	"io"
	"os"
	"strings"
	"sync"
	"time"

	"github.com/ipfs/go-cid"
	"github.com/ipfs/go-graphsync"
	gsimpl "github.com/ipfs/go-graphsync/impl"
	"github.com/ipld/go-ipld-prime"
	"github.com/ipld/go-ipld-prime/codec"
	"github.com/ipld/go-ipld-prime/datamodel"
	cidlink "github.com/ipld/go-ipld-prime/linking/cid"
	"github.com/ipld/go-ipld-prime/node/basicnode"
	"github.com/libp2p/go-libp2p/core/peer"

	"verifharness/dagreal"
	"verifharness/verifnet"
)

// panic-run: ONE fault placement of Panics.tla in this process (a panic that is not contained ends the process,
// which is what the parent observes).  A requestor R and a responder S on verifnet; request T (chain of K blocks) gets a
// panic at the at-th call of `site` on `side`; request O (another chain) runs at the same time.

func init() { register("panic-run", panicRun) }

type panicObs struct {
	Alive      bool     `json:"alive"`
	Callback   int      `json:"callback"`   // calls of the panic callback on the side where the panic was raised
	TargetErrs []string `json:"targetErrs"` // errors delivered for T
	TargetDone bool     `json:"targetDone"` // T's channels were closed
	TargetN    int      `json:"targetNodes"`
	OtherOK    bool     `json:"otherOK"` // O delivered every block, no error
	OtherErrs  []string `json:"otherErrs"`
	Fired      bool     `json:"fired"` // the panic was actually raised
	Status     string   `json:"targetStatus"` // terminal status the responder put on the wire for T ("" if none)
}

type hitWriter struct {
	w  io.Writer
	on func([]byte)
}

func (h *hitWriter) Write(p []byte) (int, error) {
	h.on(p)
	return h.w.Write(p)
}

func panicRun(args []string) error {
	fs := flag.NewFlagSet("panic-run", flag.ExitOnError)
	side := fs.String("side", "resp", "")
	site := fs.String("site", "read", "")
	at := fs.Int("at", 1, "")
	k := fs.Int("k", 3, "")
	fs.Parse(args)
	ctx, cancel := context.WithCancel(context.Background())
	defer cancel()
	mkChain := func(label string, n int) *dagreal.DAG {
		t := dagreal.Tree{N: n, Par: make([]int, n+1), Dep: make([]int, n+1), Cid: make([]int, n+1)}
		for i := 1; i <= n; i++ {
			t.Par[i], t.Dep[i], t.Cid[i] = i-1, i-1, 2*i
		}
		d, _ := dagreal.Build(t, label)
		return d
	}
	dT, dO := mkChain("panic-target", *k), mkChain("panic-other", *k+1)
	isT := func(c cid.Cid) bool { _, ok := dT.Blocks[c]; return ok }
	byData := map[string]cid.Cid{}
	for c, b := range dT.Blocks {
		byData[string(b)] = c
	}
	var mu sync.Mutex
	calls, fired := 0, false
	// hit reports whether this call (on the faulty side, for a block of T) is the one that panics
	hit := func(onSide string, c cid.Cid) {
		if onSide != *side || !isT(c) {
			return
		}
		mu.Lock()
		calls++
		n := calls
		if n == *at {
			fired = true
		}
		mu.Unlock()
		if n == *at {
			panic(fmt.Sprintf("verif: injected panic in %s on the %s side, call %d", *site, *side, n))
		}
	}
	callback := map[string]*int{"req": new(int), "resp": new(int)}
	mkNode := func(name string, ep *verifnet.Endpoint, blocks map[cid.Cid][]byte) (graphsync.GraphExchange, *dagreal.Store) {
		st := dagreal.NewStore(blocks)
		ls := st.LinkSystem()
		baseRead, baseWrite := ls.StorageReadOpener, ls.StorageWriteOpener
		_ = bytes.MinRead
		if *site == "read" {
			ls.StorageReadOpener = func(lc ipld.LinkContext, l ipld.Link) (io.Reader, error) {
				hit(name, l.(cidlink.Link).Cid)
				return baseRead(lc, l)
			}
		}
		if *site == "write" || *site == "commit" {
			ls.StorageWriteOpener = func(lc ipld.LinkContext) (io.Writer, ipld.BlockWriteCommitter, error) {
				w, commit, err := baseWrite(lc)
				if err != nil {
					return w, commit, err
				}
				return &hitWriter{w, func(p []byte) {
						if c, ok := byData[string(p)]; ok && *site == "write" {
							hit(name, c)
						}
					}}, func(l ipld.Link) error {
						if *site == "commit" {
							hit(name, l.(cidlink.Link).Cid)
						}
						return commit(l)
					}, nil
			}
		}
		if *site == "decoder" {
			baseDec := ls.DecoderChooser
			ls.DecoderChooser = func(l datamodel.Link) (codec.Decoder, error) {
				dec, err := baseDec(l)
				if err != nil {
					return nil, err
				}
				c := l.(cidlink.Link).Cid
				return func(na datamodel.NodeAssembler, r io.Reader) error {
					hit(name, c)
					return dec(na, r)
				}, nil
			}
		}
		if *site == "reifier" {
			ls.NodeReifier = func(lc ipld.LinkContext, n datamodel.Node, _ *ipld.LinkSystem) (datamodel.Node, error) {
				// the root load carries no link: T's blocks are recognised by their "id" field
				if idn, err := n.LookupByString("id"); err == nil {
					if id, err := idn.AsString(); err == nil && strings.HasPrefix(id, "panic-target") {
						hit(name, dT.Root)
					}
				}
				return n, nil
			}
		}
		cnt := callback[name]
		gs := gsimpl.New(ctx, ep, ls, gsimpl.PanicCallback(func(obj any, stack string) {
			mu.Lock()
			*cnt++
			mu.Unlock()
		}))
		return gs, st
	}
	net := verifnet.New()
	pR, pS := peer.ID("req-peer-R"), peer.ID("resp-peer-S")
	epR, epS := net.Endpoint(ctx, pR), net.Endpoint(ctx, pS)
	all := map[cid.Cid][]byte{}
	for c, b := range dT.Blocks {
		all[c] = b
	}
	for c, b := range dO.Blocks {
		all[c] = b
	}
	// for read faults on the requestor it must read locally: it holds T except its last block
	var have map[cid.Cid][]byte
	if *site == "read" && *side == "req" {
		have = map[cid.Cid][]byte{}
		for c, b := range dT.Blocks {
			if dT.LabelOf[c] != 2*(*k) {
				have[c] = b
			}
		}
	}
	gsR, _ := mkNode("req", epR, have)
	gsS, _ := mkNode("resp", epS, all)
	chooser := func(name string, root cid.Cid) func(ipld.Link, ipld.LinkContext) (ipld.NodePrototype, error) {
		return func(l ipld.Link, lc ipld.LinkContext) (ipld.NodePrototype, error) {
			if *site == "chooser" {
				hit(name, l.(cidlink.Link).Cid)
			}
			return basicnode.Prototype.Any, nil
		}
	}
	gsR.RegisterOutgoingRequestHook(func(p peer.ID, r graphsync.RequestData, ha graphsync.OutgoingRequestHookActions) {
		if r.Root().Equals(dT.Root) {
			ha.UseLinkTargetNodePrototypeChooser(chooser("req", dT.Root))
		}
	})
	gsS.RegisterIncomingRequestHook(func(p peer.ID, r graphsync.RequestData, ha graphsync.IncomingRequestHookActions) {
		ha.ValidateRequest()
		if r.Root().Equals(dT.Root) {
			ha.UseLinkTargetNodePrototypeChooser(chooser("resp", dT.Root))
		}
	})
	sel := dagreal.AllSelector(20)
	type result struct {
		nodes int
		errs  []string
		done  bool
	}
	run := func(root cid.Cid) result {
		var r result
		rctx, rc := context.WithTimeout(ctx, 4*time.Second)
		defer rc()
		prog, errs := gsR.Request(rctx, pS, cidlink.Link{Cid: root}, sel)
		for prog != nil || errs != nil {
			select {
			case _, ok := <-prog:
				if !ok {
					prog = nil
				} else {
					r.nodes++
				}
			case e, ok := <-errs:
				if !ok {
					errs = nil
				} else {
					s := fmt.Sprintf("%T: %v", e, e)
					if len(s) > 160 {
						s = s[:160]
					}
					r.errs = append(r.errs, s)
				}
			}
		}
		r.done = rctx.Err() == nil
		return r
	}
	var wg sync.WaitGroup
	var rT, rO result
	wg.Add(2)
	go func() { defer wg.Done(); rT = run(dT.Root) }()
	go func() { defer wg.Done(); rO = run(dO.Root) }()
	wg.Wait()
	// a second, later request must still be served too (the process and both nodes keep working)
	rO2 := run(dO.Root)
	_, refNodes, _ := dagreal.Walk(dO.Root, sel, dO.Blocks)
	// the responder's verdict on T: the terminal status it sent in the message that carries T's root block metadata or later
	tStatus := ""
	var tID *graphsync.RequestID
	for _, m := range net.Log() {
		if m.From == pR {
			for _, rq := range m.Msg.Requests() {
				if rq.Type() == graphsync.RequestTypeNew && rq.Root().Equals(dT.Root) {
					id := rq.ID()
					tID = &id
				}
			}
		}
	}
	// (the requestor can be done before the responder's last message is out: give that message time)
	for t := time.Now(); tStatus == "" && tID != nil && time.Since(t) < 2*time.Second; time.Sleep(time.Millisecond) {
		for _, m := range net.Log() {
			if m.From == pS {
				for _, rs := range m.Msg.Responses() {
					if rs.RequestID() == *tID && rs.Status().IsTerminal() {
						tStatus = statusName(rs.Status())
					}
				}
			}
		}
	}
	mu.Lock()
	obs := panicObs{Status: tStatus, Alive: true, Callback: *callback[*side], TargetErrs: rT.errs, TargetDone: rT.done, TargetN: rT.nodes,
		OtherOK: rO.done && len(rO.errs) == 0 && rO.nodes == len(refNodes) && rO2.done && len(rO2.errs) == 0 && rO2.nodes == len(refNodes),
		OtherErrs: append(rO.errs, rO2.errs...), Fired: fired}
	mu.Unlock()
	if obs.TargetErrs == nil {
		obs.TargetErrs = []string{}
	}
	if obs.OtherErrs == nil {
		obs.OtherErrs = []string{}
	}
	return json.NewEncoder(os.Stdout).Encode(obs)
}
