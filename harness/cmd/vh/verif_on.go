//go:build verif

package main

import (
	"github.com/ipfs/go-graphsync/responsemanager/responseassembler"
	"github.com/libp2p/go-libp2p/core/peer"
)

const hooksEnabled = true

func verifTrackerIdle(ra *responseassembler.ResponseAssembler, p peer.ID) bool {
	return ra.VerifTrackerIdle(p)
}
