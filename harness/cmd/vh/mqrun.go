package main

import (
	"bufio"
	"context"
	"encoding/json"
	"errors"
	"flag"
	"fmt"
	"os"
	"runtime"
	"sort"
	"sync"
	"time"

	"github.com/ipfs/go-graphsync"
	"github.com/ipfs/go-graphsync/allocator"
	gsmsg "github.com/ipfs/go-graphsync/message"
	"github.com/ipfs/go-graphsync/messagequeue"
	gsnet "github.com/ipfs/go-graphsync/network"
	"github.com/ipfs/go-graphsync/notifications"
	"github.com/ipfs/go-graphsync/peermanager"
	"github.com/ipfs/go-graphsync/responsemanager/responseassembler"
	"github.com/ipld/go-ipld-prime/node/basicnode"
	"github.com/libp2p/go-libp2p/core/peer"
)

func init() { register("mq-run", mqRun) }

// Script events for one peer's message queue (MsgQueueScripts.tla):
//
//	call r blk ext fin   one response transaction for request r (a unique block of blk*100 bytes, an extension of ext*~60 bytes, fin: finish status)
//	sendok / sendfail    outcome of the send the queue goroutine is parked in
//	connfail             the next connection attempt fails
//	shutdown             Shutdown() of the peer's queue (Disconnected)
//	gate-built / release-built   hold the next caller between "builder updated" and "work signalled"
//	gate-alloc / release-alloc   hold the next caller inside the memory reservation (after the closed-stream check)
type mqEv struct {
	Ev  string `json:"ev"`
	R   string `json:"r"`
	Blk int    `json:"blk"`
	Ext int    `json:"ext"`
	Fin bool   `json:"fin"`
	Q   int    `json:"q"`
}
type mqCase struct {
	ID     int             `json:"id"`
	Script []mqEv          `json:"script"`
	// SameBlock: every call that sends a block sends the SAME block (as several requests traversing one block do): the
	// message then carries it once, while each call has reserved memory for it
	SameBlock bool `json:"sameBlock,omitempty"`
	Finals json.RawMessage `json:"finals,omitempty"`
}
type mqObs struct {
	Alloc        uint64              `json:"alloc"` // AllocatedForPeer at quiescence
	Pending      uint64              `json:"pendingAlloc"`
	Reserved     uint64              `json:"reserved"`  // bytes the queue asked the allocator for
	Told         map[string][]string `json:"told"`      // "topic/r" -> terminal events received (sent|error)
	Expected     []string            `json:"expected"`  // attachments that must be told: "topic/r"
	Extra        []string            `json:"extraTold"` // told without being an expected attachment
	WireTopics   []int               `json:"wireTopics"`
	QueuesLive   int                 `json:"queuesLive"`
	MaxLive      int                 `json:"maxLive"`
	Started      int                 `json:"started"`
	Exited       int                 `json:"exited"`
	Desync       string              `json:"desync"`
	Idle         bool                `json:"idle"`
	Conns        int                 `json:"conns"`
	PeerScript   bool                `json:"peerScript"`
	CallsBlocked int                 `json:"callsBlocked"`
}

// gateAlloc wraps the real allocator with a gate inside AllocateBlockMemory.
type gateAlloc struct {
	*allocator.Allocator
	mu        sync.Mutex
	hold      bool
	parkedRel chan chan struct{}
	reserved  uint64
}

func (g *gateAlloc) AllocateBlockMemory(p peer.ID, amount uint64) <-chan error {
	g.mu.Lock()
	g.reserved += amount
	hold := g.hold
	g.hold = false
	g.mu.Unlock()
	if hold {
		rel := make(chan struct{})
		g.parkedRel <- rel
		<-rel
	}
	return g.Allocator.AllocateBlockMemory(p, amount)
}

type mqSender struct{ n *mqNet }

func (s *mqSender) SendMsg(ctx context.Context, m gsmsg.GraphSyncMessage) error {
	arr := make(chan error, 1)
	select {
	case s.n.sends <- mqSend{m, arr}:
	case <-ctx.Done():
		return ctx.Err()
	}
	select {
	case err := <-arr:
		return err
	case <-ctx.Done():
		return ctx.Err()
	}
}
func (s *mqSender) Close() error { return nil }
func (s *mqSender) Reset() error { return nil }

type mqSend struct {
	m     gsmsg.GraphSyncMessage
	reply chan error
}
type mqNet struct {
	mu       sync.Mutex
	connFail int
	sends    chan mqSend
}

func (n *mqNet) ConnectTo(ctx context.Context, p peer.ID) error {
	n.mu.Lock()
	defer n.mu.Unlock()
	if n.connFail > 0 {
		n.connFail--
		return errors.New("verif: scripted connect failure")
	}
	return nil
}
func (n *mqNet) NewMessageSender(ctx context.Context, p peer.ID, o gsnet.MessageSenderOpts) (gsnet.MessageSender, error) {
	return &mqSender{n}, nil
}

type mqSub struct {
	r   string
	mu  *sync.Mutex
	log *map[string][]string
}

func (s *mqSub) OnNext(t notifications.Topic, ev notifications.Event) {
	e, ok := ev.(messagequeue.Event)
	if !ok {
		return
	}
	kind := ""
	switch e.Name {
	case messagequeue.Sent:
		kind = "sent"
	case messagequeue.Error:
		kind = "error"
	default:
		return
	}
	s.mu.Lock()
	k := fmt.Sprintf("%d/%s", t.(messagequeue.Topic), s.r)
	(*s.log)[k] = append((*s.log)[k], kind)
	s.mu.Unlock()
}
func (s *mqSub) OnClose(t notifications.Topic) {}

var mqHookMu sync.Mutex // VerifHook is a package variable: cases run one at a time per process section

func runMqCase(c mqCase) (obs mqObs) {
	ctx, cancel := context.WithCancel(context.Background())
	defer cancel()
	p := peer.ID("peer-P")
	al := &gateAlloc{Allocator: allocator.NewAllocator(1<<30, 1<<30), parkedRel: make(chan chan struct{}, 4)}
	net := &mqNet{sends: make(chan mqSend)}
	var mu sync.Mutex
	told := map[string][]string{}
	// ground truth of attachments from the hooks
	type qt struct {
		q *messagequeue.MessageQueue
		t messagequeue.Topic
	}
	cur := map[qt]map[string]bool{} // current subscribers per queued topic of each queue
	expected := map[string]int{}    // multiset: the same topic number can occur in successive queues of the peer
	live, maxLive, started, exited := 0, 0, 0, 0
	idName := map[graphsync.RequestID]string{}
	var builtGate struct {
		hold    bool
		parked  chan struct{}
		release chan struct{}
	}
	builtGate.parked = make(chan struct{}, 1)
	builtGate.release = make(chan struct{})
	var wireTopics []int
	holdExit := false
	for _, e := range c.Script {
		if e.Ev == "exit" {
			holdExit = true
		}
	}
	exitGates := map[int]chan struct{}{}
	running := map[int]bool{} // queue ordinals between start and exit
	stopReq := map[int]bool{} // queues that have been told to shut down (they only finish what they are doing)
	markStopped := func() {
		mu.Lock()
		for q := range running {
			stopReq[q] = true
		}
		mu.Unlock()
	}
	conns := 0
	mine := map[*messagequeue.MessageQueue]bool{}
	qord := map[*messagequeue.MessageQueue]int{}
	hook := func(mq *messagequeue.MessageQueue, event string, topic messagequeue.Topic, ids []graphsync.RequestID) {
		mu.Lock()
		if !mine[mq] {
			mu.Unlock()
			return // a queue of an earlier case winding down
		}
		if os.Getenv("VERIF_MQ_DEBUG") != "" {
			fmt.Fprintf(os.Stderr, "hook q=%p %s topic=%d ids=%d\n", mq, event, topic, len(ids))
		}
		switch event {
		case "built", "scrub":
			m := map[string]bool{}
			for _, id := range ids {
				m[idName[id]] = true
			}
			cur[qt{mq, topic}] = m
		case "extract":
			for _, id := range ids {
				expected[fmt.Sprintf("%d/%s", topic, idName[id])]++
			}
			if len(ids) > 0 {
				wireTopics = append(wireTopics, int(topic))
			}
			delete(cur, qt{mq, topic})
		case "start":
			live++
			started++
			qord[mq] = started
			running[started] = true
			n := 0
			for q := range running {
				if !stopReq[q] {
					n++
				}
			}
			if n > maxLive {
				maxLive = n
			}
		case "exit":
			live--
			exited++
			delete(running, qord[mq])
			if holdExit {
				rel := make(chan struct{})
				exitGates[qord[mq]] = rel
				mu.Unlock()
				<-rel
				return
			}
		}
		hold := event == "built" && builtGate.hold
		if hold {
			builtGate.hold = false
		}
		mu.Unlock()
		if hold {
			builtGate.parked <- struct{}{}
			<-builtGate.release
		}
	}
	messagequeue.VerifHook = hook
	pm := peermanager.NewMessageManager(ctx, func(ctx context.Context, pp peer.ID, onShutdown func(peer.ID)) peermanager.PeerQueue {
		q := messagequeue.New(ctx, pp, net, al, 1, time.Second, onShutdown)
		mu.Lock()
		mine[q] = true
		mu.Unlock()
		return q
	})
	ra := responseassembler.New(ctx, pm)
	peerScript := false
	for _, e := range c.Script {
		if e.Ev == "connected" || e.Ev == "disconnected" || e.Ev == "send" {
			peerScript = true
		}
	}
	if !peerScript {
		pm.Connected(p)
	}
	streams := map[string]responseassembler.ResponseStream{}
	stream := func(r string) responseassembler.ResponseStream {
		if s, ok := streams[r]; ok {
			return s
		}
		id := graphsync.NewRequestID()
		mu.Lock()
		idName[id] = r
		mu.Unlock()
		s := ra.NewStream(ctx, p, id, &mqSub{r, &mu, &told})
		if c.SameBlock {
			// each request de-duplicates in its own bucket, so the shared block is attached for every one of them
			s.DedupKey("bucket-" + r)
		}
		streams[r] = s
		return s
	}
	ncall := 0
	nReplied := 0
	var callsWG sync.WaitGroup
	pendingCalls := 0
	var cmu sync.Mutex
	var parkedSend *mqSend
	// waitSend: the queue goroutine arrives in SendMsg
	waitSend := func(d time.Duration) bool {
		if parkedSend != nil {
			return true
		}
		select {
		case s := <-net.sends:
			parkedSend = &s
			return true
		case <-time.After(d):
			return false
		}
	}
	doCall := func(e mqEv) {
		ncall++
		n := ncall
		st := stream(e.R)
		callsWG.Add(1)
		cmu.Lock()
		pendingCalls++
		cmu.Unlock()
		go func() {
			defer callsWG.Done()
			_ = st.Transaction(func(rb responseassembler.ResponseBuilder) error {
				if e.Blk > 0 {
					tag := n
					if c.SameBlock {
						tag = 0
					}
					data, lk := rawBlock(fmt.Sprintf("mq-%d-%d-%s", c.ID, tag, string(make([]byte, e.Blk*1000))))
					rb.SendResponse(lk, data)
				}
				if e.Ext > 0 {
					rb.SendExtensionData(graphsync.ExtensionData{Name: graphsync.ExtensionName(fmt.Sprintf("verif/%d", n)), Data: basicnode.NewString(string(make([]byte, e.Ext*60)))})
				}
				if e.Fin || (e.Blk == 0 && e.Ext == 0) {
					rb.FinishRequest()
				}
				return nil
			})
			cmu.Lock()
			pendingCalls--
			cmu.Unlock()
		}()
	}
	callsIdle := func(d time.Duration) bool {
		deadline := time.Now().Add(d)
		for time.Now().Before(deadline) {
			cmu.Lock()
			n := pendingCalls
			cmu.Unlock()
			if n == 0 {
				return true
			}
			time.Sleep(200 * time.Microsecond)
		}
		return false
	}
	parkedCalls := map[string]chan struct{}{}
	deferred := map[string]mqEv{}
	for i, e := range c.Script {
		switch e.Ev {
		case "call":
			doCall(e)
			al.mu.Lock()
			gated := al.hold
			al.mu.Unlock()
			mu.Lock()
			gated = gated || builtGate.hold
			mu.Unlock()
			if !gated {
				callsIdle(4 * time.Second) // returns as soon as the call is through; the bound only matters on a very slow machine
			} else if e.Blk+e.Ext > 0 {
				// the call must have reached the gate (its reservation parked in the allocator, or its build) before the script
				// goes on, however slowly its goroutine gets scheduled
				for t := time.Now(); time.Since(t) < 500*time.Millisecond; time.Sleep(100 * time.Microsecond) {
					mu.Lock()
					bp := len(builtGate.parked) > 0
					mu.Unlock()
					if len(al.parkedRel) > 0 || bp {
						break
					}
				}
			}
			time.Sleep(300 * time.Microsecond)
		case "sendok", "sendfail":
			if !waitSend(700 * time.Millisecond) {
				obs.Desync = fmt.Sprintf("event %d: queue goroutine is not sending", i)
			} else {
				if e.Ev == "sendok" {
					nReplied++
					parkedSend.reply <- nil
				} else {
					nReplied++
					parkedSend.reply <- errors.New("verif: scripted send failure")
				}
				parkedSend = nil
				if e.Ev == "sendfail" {
					// the queue waits 100 ms before it gives the message up (or tries again): wait until it has told the
					// message's subscribers or is sending again, however loaded the machine is
					toldNow := func() int {
						mu.Lock()
						defer mu.Unlock()
						n := 0
						for _, v := range told {
							n += len(v)
						}
						return n
					}
					t0n := toldNow()
					time.Sleep(105 * time.Millisecond)
					for startT := time.Now(); time.Since(startT) < 2*time.Second; time.Sleep(time.Millisecond) {
						if toldNow() > t0n || len(net.sends) > 0 {
							break
						}
					}
				}
				time.Sleep(500 * time.Microsecond)
			}
		case "connected":
			mu.Lock()
			s0 := started
			mu.Unlock()
			pm.Connected(p)
			if conns == 0 {
				// a first connection creates the peer's queue: its goroutine must have reported its start before the script
				// goes on, or a disconnect that follows at once could not be attributed to it
				for t := time.Now(); time.Since(t) < 500*time.Millisecond; time.Sleep(100 * time.Microsecond) {
					mu.Lock()
					ok := started > s0
					mu.Unlock()
					if ok {
						break
					}
				}
			}
			conns++
		case "disconnected":
			if conns == 1 {
				markStopped()
			}
			pm.Disconnected(p)
			conns--
			time.Sleep(time.Millisecond)
		case "send":
			doCall(mqEv{Ev: "call", R: fmt.Sprintf("s%d", ncall+1), Fin: true})
			callsIdle(500 * time.Millisecond)
			if waitSend(50 * time.Millisecond) {
				nReplied++
				parkedSend.reply <- nil
				parkedSend = nil
			}
			time.Sleep(500 * time.Microsecond)
		case "selfshutdown":
			// the queue cannot reach the peer any more: a message to send makes it give up and shut itself down
			net.mu.Lock()
			net.connFail = 1000
			net.mu.Unlock()
			if parkedSend == nil {
				doCall(mqEv{Ev: "call", R: fmt.Sprintf("s%d", ncall+1), Fin: true})
				callsIdle(500 * time.Millisecond)
				waitSend(30 * time.Millisecond)
			}
			if parkedSend != nil { // a sender was still open: this send fails, so does the reconnect
				nReplied++
				parkedSend.reply <- errors.New("verif: connection lost")
				parkedSend = nil
				time.Sleep(130 * time.Millisecond)
				doCall(mqEv{Ev: "call", R: fmt.Sprintf("s%d", ncall+1), Fin: true}) // the next message finds no way to connect
				callsIdle(500 * time.Millisecond)
			}
			for j := 0; j < 2000; j++ { // until that queue is on its way out
				mu.Lock()
				l := live
				mu.Unlock()
				if l == 0 {
					break
				}
				time.Sleep(250 * time.Microsecond)
			}
			net.mu.Lock()
			net.connFail = 0
			net.mu.Unlock()
		case "exit":
			var rel chan struct{}
			for j := 0; j < 2000 && rel == nil; j++ {
				mu.Lock()
				rel = exitGates[e.Q]
				mu.Unlock()
				if rel == nil {
					time.Sleep(250 * time.Microsecond)
				}
			}
			if rel == nil {
				obs.Desync = fmt.Sprintf("event %d: queue %d is not exiting", i, e.Q)
			} else {
				close(rel)
				mu.Lock()
				delete(exitGates, e.Q)
				mu.Unlock()
				time.Sleep(time.Millisecond)
			}
		case "connfail":
			net.mu.Lock()
			net.connFail++
			net.mu.Unlock()
		case "shutdown":
			markStopped()
			pm.Disconnected(p)
			time.Sleep(2 * time.Millisecond)
		case "gate-built":
			mu.Lock()
			builtGate.hold = true
			mu.Unlock()
		case "release-built":
			select {
			case <-builtGate.parked:
				builtGate.release <- struct{}{}
			case <-time.After(500 * time.Millisecond):
				obs.Desync = fmt.Sprintf("event %d: no caller parked after build", i)
			}
			callsIdle(500 * time.Millisecond)
		case "gate-alloc":
			al.mu.Lock()
			al.hold = true
			al.mu.Unlock()
		case "release-alloc":
			select {
			case rel := <-al.parkedRel:
				close(rel)
			case <-time.After(500 * time.Millisecond):
				obs.Desync = fmt.Sprintf("event %d: no caller parked in the allocator", i)
			}
			callsIdle(500 * time.Millisecond)
		case "begin":
			if e.Blk+e.Ext == 0 {
				deferred[e.R] = e // nothing to reserve: the whole call happens at "finish"
				break
			}
			al.mu.Lock()
			al.hold = true
			al.mu.Unlock()
			doCall(e)
			select {
			case rel := <-al.parkedRel:
				parkedCalls[e.R] = rel
			case <-time.After(500 * time.Millisecond):
				// the stream was already closed: the call returned without reserving anything
				al.mu.Lock()
				al.hold = false
				al.mu.Unlock()
			}
		case "finish":
			if rel, ok := parkedCalls[e.R]; ok {
				close(rel)
				delete(parkedCalls, e.R)
			} else if d, ok := deferred[e.R]; ok {
				delete(deferred, e.R)
				doCall(d)
			}
			callsIdle(500 * time.Millisecond)
			time.Sleep(300 * time.Microsecond)
		case "wait-exit":
			for j := 0; j < 2000; j++ {
				mu.Lock()
				l := live
				mu.Unlock()
				if l == 0 {
					break
				}
				time.Sleep(250 * time.Microsecond)
			}
		}
		if obs.Desync != "" {
			break
		}
	}
	mu.Lock()
	holdExit = false
	for q, rel := range exitGates {
		close(rel)
		delete(exitGates, q)
	}
	mu.Unlock()
	for r, rel := range parkedCalls {
		close(rel)
		delete(parkedCalls, r)
	}
	for r, d := range deferred {
		delete(deferred, r)
		doCall(d)
	}
	// run out: every remaining send succeeds; wait for quiescence
	// (it is not over while a live queue still holds a message it has not taken out yet: after a failed send the sender
	//  needs its 100 ms and a re-open before it goes on, longer on a loaded machine)
	queuedSomewhere := func() bool {
		mu.Lock()
		defer mu.Unlock()
		// still queued in a live queue, or taken out and not yet at the network (every extracted message gets at least one reply)
		return live > 0 && (len(cur) > 0 || nReplied < len(wireTopics))
	}
	quiet := time.Now()
	for startT := time.Now(); (time.Since(quiet) < 30*time.Millisecond || queuedSomewhere()) && time.Since(startT) < 1500*time.Millisecond; {
		select {
		case s := <-net.sends:
			nReplied++
			s.reply <- nil
			quiet = time.Now()
		case <-time.After(5 * time.Millisecond):
		}
		if parkedSend != nil {
			nReplied++
			parkedSend.reply <- nil
			parkedSend = nil
			quiet = time.Now()
		}
	}
	obs.Idle = callsIdle(300 * time.Millisecond)
	cmu.Lock()
	obs.CallsBlocked = pendingCalls
	cmu.Unlock()
	time.Sleep(3 * time.Millisecond)
	mu.Lock()
	// attachments still queued now must have been told as well: a stopped queue fails them, a live one has had every chance
	// to send them during the run-out
	for k, m := range cur {
		for r := range m {
			expected[fmt.Sprintf("%d/%s", k.t, r)]++
		}
	}
	obs.Told = map[string][]string{}
	for k, v := range told {
		obs.Told[k] = append([]string{}, v...)
		if expected[k] == 0 {
			obs.Extra = append(obs.Extra, k)
		}
	}
	for k, n := range expected {
		for j := 0; j < n; j++ {
			obs.Expected = append(obs.Expected, k)
		}
	}
	obs.WireTopics = append([]int{}, wireTopics...)
	obs.QueuesLive, obs.MaxLive, obs.Started, obs.Exited = live, maxLive, started, exited
	mu.Unlock()
	sort.Strings(obs.Expected)
	sort.Strings(obs.Extra)
	obs.Conns = conns
	obs.PeerScript = peerScript
	obs.Alloc = al.AllocatedForPeer(p)
	obs.Pending = al.Stats().TotalPendingAllocations
	al.mu.Lock()
	obs.Reserved = al.reserved
	al.mu.Unlock()
	if obs.Expected == nil {
		obs.Expected = []string{}
	}
	if obs.Extra == nil {
		obs.Extra = []string{}
	}
	return obs
}

func mqRun(args []string) error {
	fs := flag.NewFlagSet("mq-run", flag.ExitOnError)
	in := fs.String("in", "", "")
	out := fs.String("out", "", "")
	_ = runtime.NumCPU
	fs.Parse(args)
	f, err := os.Open(*in)
	if err != nil {
		return err
	}
	defer f.Close()
	w, err := os.Create(*out)
	if err != nil {
		return err
	}
	defer w.Close()
	bw := bufio.NewWriter(w)
	defer bw.Flush()
	enc := json.NewEncoder(bw)
	sc := bufio.NewScanner(f)
	sc.Buffer(make([]byte, 1<<20), 1<<26)
	for sc.Scan() {
		var c mqCase
		if err := json.Unmarshal(sc.Bytes(), &c); err != nil {
			return err
		}
		enc.Encode(map[string]any{"case": c, "obs": runMqCase(c)})
	}
	return nil
}
