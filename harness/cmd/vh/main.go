// Command vh is the Go side of the /verif conformance harness: one sub-command per
// specification module.  It drives the real go-graphsync code (from /repo, via the replace
// directive) and exchanges JSON with the TLA+ side.
package main

import (
	"fmt"
	"os"
)

type cmdFn func(args []string) error

var commands = map[string]cmdFn{}

func register(name string, f cmdFn) { commands[name] = f }

func main() {
	if len(os.Args) < 2 {
		fmt.Fprintln(os.Stderr, "usage: vh <command> [flags]")
		for k := range commands {
			fmt.Fprintln(os.Stderr, "  ", k)
		}
		os.Exit(2)
	}
	f, ok := commands[os.Args[1]]
	if !ok {
		fmt.Fprintln(os.Stderr, "unknown command", os.Args[1])
		os.Exit(2)
	}
	if err := f(os.Args[2:]); err != nil {
		fmt.Fprintln(os.Stderr, "error:", err)
		os.Exit(3)
	}
}
