package main

import (
	"bufio"
	"context"
	"encoding/json"
	"flag"
	"os"
	"runtime"
	"sort"
	"sync"
	"time"

	"github.com/ipfs/go-graphsync/taskqueue"
	"github.com/ipfs/go-peertaskqueue"
	"github.com/ipfs/go-peertaskqueue/peertask"
	"github.com/libp2p/go-libp2p/core/peer"
)

func init() { register("tq-run", tqRun) }

type tqEv struct {
	Ev string `json:"ev"` // push | remove | done | tick | loop (start of the repeated part)
	P  string `json:"p"`
	T  string `json:"t"`
}
type tqCase struct {
	ID         int    `json:"id"`
	Workers    int    `json:"workers"`
	MaxPerPeer int    `json:"maxPerPeer"`
	Script     []tqEv `json:"script"`
	Loop       []tqEv `json:"loop"` // repeated Repeat times after Script (starvation lassos)
	Repeat     int    `json:"repeat"`
	Dev        string `json:"dev,omitempty"`
}
type tqObs struct {
	MaxExec             int            `json:"maxExec"`
	MaxPerPeer          int            `json:"maxPerPeerSeen"`
	Started             []string       `json:"started"`       // every execution start, in order
	StartedInLoop       map[string]int `json:"startedInLoop"` // task -> loop iteration (0 = before the loop) of its first start after being pushed
	PendingAtLoop       []string       `json:"pendingAtLoop"` // tasks pushed, not started, not removed when the loop begins
	NotStartedByLoopEnd []string       `json:"notStartedByLoopEnd"`
	Unstarted           []string       `json:"unstarted"` // pushed, never removed, never started although the queue was left alone for 1.5 s
	Removed             []string       `json:"removed"`
	Desync              string         `json:"desync"`
	FinalActive         uint64         `json:"finalActive"`
	FinalPending        uint64         `json:"finalPending"`
}

type tqExec struct {
	mu       sync.Mutex
	exec     int
	perPeer  map[peer.ID]int
	maxExec  int
	maxPeer  int
	running  map[string]chan struct{}
	started  []string
	startCnt map[string]int
	auto     bool
	onStart  func(t string)
	q        *taskqueue.WorkerTaskQueue
}

func (e *tqExec) ExecuteTask(ctx context.Context, pid peer.ID, task *peertask.Task) bool {
	t := task.Topic.(string)
	e.mu.Lock()
	e.exec++
	e.perPeer[pid]++
	if e.exec > e.maxExec {
		e.maxExec = e.exec
	}
	if e.perPeer[pid] > e.maxPeer {
		e.maxPeer = e.perPeer[pid]
	}
	ch := make(chan struct{})
	e.running[t] = ch
	e.started = append(e.started, t)
	e.startCnt[t]++
	auto := e.auto
	cb := e.onStart
	e.mu.Unlock()
	if cb != nil {
		cb(t)
	}
	if !auto {
		select {
		case <-ch:
		case <-ctx.Done():
		}
	}
	e.mu.Lock()
	e.exec--
	e.perPeer[pid]--
	delete(e.running, t)
	e.mu.Unlock()
	e.q.TaskDone(pid, task) // what the request/response managers do when an execution ends
	return false
}

func runTqCase(c tqCase) (obs tqObs) {
	ctx, cancel := context.WithCancel(context.Background())
	defer cancel()
	var opts []peertaskqueue.Option
	if c.MaxPerPeer > 0 {
		opts = append(opts, peertaskqueue.MaxOutstandingWorkPerPeer(c.MaxPerPeer))
	}
	q := taskqueue.NewTaskQueue(ctx, opts...)
	ex := &tqExec{perPeer: map[peer.ID]int{}, running: map[string]chan struct{}{}, startCnt: map[string]int{}}
	ex.q = q
	q.Startup(uint64(c.Workers), ex)
	defer q.Shutdown()
	pushed := map[string]int{}      // pushes so far per task
	removedNow := map[string]bool{} // removed while pending (current incarnation)
	var taskPeer = map[string]string{}
	obs.StartedInLoop = map[string]int{}
	iter := 0
	startsAtPush := map[string]int{}
	ex.onStart = nil
	settle := func() { time.Sleep(1500 * time.Microsecond) }
	isRunning := func(t string) bool { ex.mu.Lock(); defer ex.mu.Unlock(); _, ok := ex.running[t]; return ok }
	startCount := func(t string) int { ex.mu.Lock(); defer ex.mu.Unlock(); return ex.startCnt[t] }
	apply := func(e tqEv) {
		switch e.Ev {
		case "push":
			taskPeer[e.T] = e.P
			pushed[e.T]++
			removedNow[e.T] = false
			startsAtPush[e.T] = startCount(e.T)
			q.PushTask(peer.ID("peer-"+e.P), peertask.Task{Topic: e.T, Priority: 0, Work: 1})
			settle()
		case "remove":
			if isRunning(e.T) || startCount(e.T) > startsAtPush[e.T] {
				return // the real worker already took it: nothing left to remove
			}
			q.Remove(e.T, peer.ID("peer-"+e.P))
			removedNow[e.T] = true
			obs.Removed = append(obs.Removed, e.T)
			settle()
		case "done":
			for i := 0; i < 400 && !isRunning(e.T); i++ {
				time.Sleep(500 * time.Microsecond)
			}
			ex.mu.Lock()
			ch, ok := ex.running[e.T]
			ex.mu.Unlock()
			if !ok {
				if obs.Desync == "" {
					obs.Desync = "task " + e.T + " is not executing when the script completes it"
				}
				return
			}
			close(ch)
			settle()
		case "tick":
			time.Sleep(115 * time.Millisecond)
		case "cycle":
			// complete whichever task of peer P is executing and submit it again (the peer keeps its queue fed)
			var cur string
			for i := 0; i < 600 && cur == ""; i++ {
				ex.mu.Lock()
				for t := range ex.running {
					if taskPeer[t] == e.P {
						cur = t
					}
				}
				ex.mu.Unlock()
				if cur == "" {
					time.Sleep(500 * time.Microsecond)
				}
			}
			if cur == "" {
				return // nothing of that peer is running right now (another peer got the worker): fine
			}
			ex.mu.Lock()
			ch := ex.running[cur]
			ex.mu.Unlock()
			close(ch)
			for i := 0; i < 400 && isRunning(cur); i++ {
				time.Sleep(250 * time.Microsecond)
			}
			pushed[cur]++
			startsAtPush[cur] = startCount(cur)
			q.PushTask(peer.ID("peer-"+e.P), peertask.Task{Topic: cur, Priority: 0, Work: 1})
			settle()
		}
	}
	for _, e := range c.Script {
		apply(e)
	}
	waiting := func() []string {
		var w []string
		for t, n := range pushed {
			if n > 0 && !removedNow[t] && startCount(t) == startsAtPush[t] {
				w = append(w, t)
			}
		}
		sort.Strings(w)
		return w
	}
	if c.Repeat > 0 {
		obs.PendingAtLoop = waiting()
		for iter = 1; iter <= c.Repeat; iter++ {
			for _, e := range c.Loop {
				apply(e)
			}
			for _, t := range obs.PendingAtLoop {
				if _, seen := obs.StartedInLoop[t]; !seen && startCount(t) > startsAtPush[t] {
					obs.StartedInLoop[t] = iter
				}
			}
		}
		for _, t := range obs.PendingAtLoop {
			if _, seen := obs.StartedInLoop[t]; !seen {
				obs.NotStartedByLoopEnd = append(obs.NotStartedByLoopEnd, t)
			}
		}
	}
	// drain: every execution now ends at once; leave the queue alone for a while
	ex.mu.Lock()
	ex.auto = true
	for _, ch := range ex.running {
		close(ch)
	}
	ex.running = map[string]chan struct{}{}
	ex.mu.Unlock()
	deadline := time.Now().Add(1500 * time.Millisecond)
	for time.Now().Before(deadline) {
		if len(waiting()) == 0 {
			st := q.Stats()
			if st.Active == 0 && st.Pending == 0 {
				break
			}
		}
		time.Sleep(5 * time.Millisecond)
	}
	obs.Unstarted = waiting()
	ex.mu.Lock()
	obs.MaxExec, obs.MaxPerPeer = ex.maxExec, ex.maxPeer
	obs.Started = append([]string{}, ex.started...)
	ex.mu.Unlock()
	st := q.Stats()
	obs.FinalActive, obs.FinalPending = st.Active, st.Pending
	for _, p := range []*[]string{&obs.Started, &obs.PendingAtLoop, &obs.NotStartedByLoopEnd, &obs.Unstarted, &obs.Removed} {
		if *p == nil {
			*p = []string{}
		}
	}
	return obs
}

func tqRun(args []string) error {
	fs := flag.NewFlagSet("tq-run", flag.ExitOnError)
	in := fs.String("in", "", "")
	out := fs.String("out", "", "")
	par := fs.Int("par", runtime.NumCPU()*2, "")
	fs.Parse(args)
	f, err := os.Open(*in)
	if err != nil {
		return err
	}
	defer f.Close()
	var cases []tqCase
	sc := bufio.NewScanner(f)
	sc.Buffer(make([]byte, 1<<20), 1<<26)
	for sc.Scan() {
		var c tqCase
		if err := json.Unmarshal(sc.Bytes(), &c); err != nil {
			return err
		}
		cases = append(cases, c)
	}
	results := make([]map[string]any, len(cases))
	var wg sync.WaitGroup
	sem := make(chan struct{}, *par)
	for i := range cases {
		wg.Add(1)
		sem <- struct{}{}
		go func(i int) {
			defer wg.Done()
			defer func() { <-sem }()
			results[i] = map[string]any{"case": cases[i], "obs": runTqCase(cases[i])}
		}(i)
	}
	wg.Wait()
	w, err := os.Create(*out)
	if err != nil {
		return err
	}
	defer w.Close()
	bw := bufio.NewWriter(w)
	defer bw.Flush()
	enc := json.NewEncoder(bw)
	for _, r := range results {
		enc.Encode(r)
	}
	return nil
}
