package main

import (
	"bufio"
	"context"
	"encoding/json"
	"errors"
	"flag"
	"fmt"
	"os"
	"runtime"
	"sort"
	"sync"
	"time"

	blocks "github.com/ipfs/go-block-format"
	"github.com/ipfs/go-cid"
	"github.com/ipfs/go-graphsync"
	"github.com/ipfs/go-graphsync/cidset"
	"github.com/ipfs/go-graphsync/dedupkey"
	"github.com/ipfs/go-graphsync/donotsendfirstblocks"
	gsimpl "github.com/ipfs/go-graphsync/impl"
	gsmsg "github.com/ipfs/go-graphsync/message"
	"github.com/ipld/go-ipld-prime"
	cidlink "github.com/ipld/go-ipld-prime/linking/cid"
	"github.com/ipld/go-ipld-prime/traversal"
	"github.com/libp2p/go-libp2p/core/peer"
	mh "github.com/multiformats/go-multihash"

	"verifharness/dagreal"
	"verifharness/verifnet"
)

func init() { register("exch-run", exchRun) }

// exCase is one Exchange case: abstract link tree + store split + request options.
type exCase struct {
	ID       int   `json:"id"`
	N        int   `json:"n"`
	Par      []int `json:"par"`
	Dep      []int `json:"dep"`
	Cid      []int `json:"cid"`
	Sl       []int `json:"sl"`
	Sr       []int `json:"sr"`
	UserSkip int   `json:"userSkip"`
	// options beyond the enumerated core
	Ignore     []int     `json:"ignore"` // do-not-send-cids (labels)
	Keyed      bool      `json:"keyed"`
	DedupKey   string    `json:"dedupKey,omitempty"`
	ReqBudget  int       `json:"reqBudget,omitempty"`  // MaxLinksPerOutgoingRequests (0 = unset)
	RespBudget int       `json:"respBudget,omitempty"` // MaxLinksPerIncomingRequests
	Budget     int       `json:"budget,omitempty"`
	Where      string    `json:"where,omitempty"` // reqG reqH reqGH reqHG respG respH respGH respHG
	Adv        bool      `json:"adv"`
	Script     []advItem `json:"script"`
	Chunk      string    `json:"chunk,omitempty"` // "one" = one message per item, else all in one
	Final      string    `json:"final,omitempty"` // terminal status sent after the script: full | failed | none
	Forge      bool      `json:"forge,omitempty"` // items without genuine block carry a block with forged bytes under the claimed CID
	Mode       string    `json:"mode,omitempty"`  // "" = real requestor + real responder; "rawreq" = raw requestor, real responder
	// C06: pause and resume
	PauseSide string `json:"pauseSide,omitempty"` // "req" | "resp"
	PauseVia  string `json:"pauseVia,omitempty"`  // "hook" (block hook action) | "api" (Pause call made while the block hook runs)
	PauseAt   int    `json:"pauseAt,omitempty"`   // the block hook call (1-based) at which the pause is requested
	Resume    string `json:"resume,omitempty"`    // "quiet": when the network has been quiet; "now": as soon as the pause is visible;
	//                                                "held": responder messages after the first are held back until the new request is on the wire
}

type advItem struct {
	C        int  `json:"c"`
	Followed bool `json:"followed"`
	Blk      bool `json:"blk"`
}

type wireItem struct {
	C   int    `json:"c"`
	Act string `json:"act"` // "p" present, "m" missing, other
	Blk bool   `json:"blk"`
}

type exObs struct {
	Delivered     []int      `json:"delivered"` // visits whose block was loaded, in order of first delivery
	Missing       []int      `json:"missing"`   // visits reported by RemoteMissingBlockErr
	OtherErrs     []string   `json:"otherErrs"`
	BudgetErr     bool       `json:"budgetErr"`
	NodesPrefixOK bool       `json:"nodesPrefixOK"`
	Writes        []int      `json:"writes"`  // labels committed to the requestor store (-1 = not a block of the DAG)
	BadHash       bool       `json:"badHash"` // some committed bytes do not hash to their link
	Store         []int      `json:"store"`   // labels in the requestor store afterwards
	NodesOK       bool       `json:"nodesOK"` // delivered node paths = reference node sequence restricted to delivered blocks
	NNodes        int        `json:"nNodes"`
	ReqSent       bool       `json:"reqSent"`
	ReqSkip       int        `json:"reqSkip"`
	CancelSent    bool       `json:"cancelSent"`
	ReqMsgs       int        `json:"reqMsgs"` // messages the requestor put on the network
	Wire          []wireItem `json:"wire"`    // responder metadata in order, with whether the block was attached
	Status        string     `json:"status"`  // terminal status seen on the wire
	Hang          bool       `json:"hang"`
	ReqLoads      int        `json:"reqLoads"`  // storage reads on the requestor
	RespLoads     int        `json:"respLoads"` // storage reads on the responder
	Note          string     `json:"note,omitempty"`
	PauseTook     bool       `json:"pauseTook"`         // the request / response was seen in state paused
	WhilePaused   int        `json:"blocksWhilePaused"` // block-carrying responder messages put on the wire while the response was paused and the wire had settled
	NewReqs       int        `json:"newReqs"`           // "new" requests the requestor put on the wire
}

func (c *exCase) tree() dagreal.Tree {
	t := dagreal.Tree{N: c.N, Par: make([]int, c.N+1), Dep: make([]int, c.N+1), Cid: make([]int, c.N+1)}
	for i := 1; i <= c.N; i++ {
		t.Par[i], t.Dep[i], t.Cid[i] = c.Par[i-1], c.Dep[i-1], c.Cid[i-1]
	}
	return t
}

func subset(d *dagreal.DAG, labels []int) map[cid.Cid][]byte {
	m := map[cid.Cid][]byte{}
	for _, l := range labels {
		c := d.ByLabel[l]
		m[c] = d.Blocks[c]
	}
	return m
}

func statusName(s graphsync.ResponseStatusCode) string {
	switch s {
	case graphsync.RequestCompletedFull:
		return "full"
	case graphsync.RequestCompletedPartial:
		return "partial"
	case graphsync.RequestFailedContentNotFound:
		return "notfound"
	case graphsync.RequestRejected:
		return "rejected"
	case graphsync.RequestFailedUnknown:
		return "failed"
	case graphsync.RequestCancelled:
		return "cancelled"
	case graphsync.RequestPaused:
		return "paused"
	}
	return fmt.Sprintf("code%d", s)
}

// wireOf extracts, for request id (or any if zero), the responder's metadata sequence and final status.
func wireOf(log []verifnet.Sent, from peer.ID, d *dagreal.DAG) ([]wireItem, string) {
	var items []wireItem
	status := ""
	for _, s := range log {
		if s.From != from || s.Outcome != verifnet.Deliver {
			continue
		}
		blocks := map[cid.Cid]bool{}
		for _, b := range s.Msg.Blocks() {
			blocks[b.Cid()] = true
		}
		seen := map[cid.Cid]bool{}
		for _, r := range s.Msg.Responses() {
			r.Metadata().Iterate(func(c cid.Cid, a graphsync.LinkAction) {
				act := string(a)
				switch a {
				case graphsync.LinkActionPresent:
					act = "p"
				case graphsync.LinkActionMissing:
					act = "m"
				}
				lab, ok := d.LabelOf[c]
				if !ok {
					lab = -1
				}
				// a block in the message is attributed to the first metadata entry naming it
				blk := blocks[c] && !seen[c]
				seen[c] = true
				items = append(items, wireItem{lab, act, blk})
			})
			if r.Status().IsTerminal() || r.Status() == graphsync.RequestPaused {
				status = statusName(r.Status())
			}
		}
	}
	return items, status
}

func runExCase(c exCase, timeout time.Duration) (obs exObs, err error) {
	t := c.tree()
	d, err := dagreal.Build(t, fmt.Sprintf("k%d", c.ID))
	if err != nil || d == nil {
		return obs, fmt.Errorf("cannot build case %d: %v", c.ID, err)
	}
	sel := dagreal.AllSelector(60)
	visits, refNodes, err := dagreal.Walk(d.Root, sel, d.Blocks)
	if err != nil {
		return obs, fmt.Errorf("reference walk failed: %v", err)
	}
	// self-check of the realisation: the real DAG's link tree is the abstract tree
	if len(visits) != c.N {
		return obs, fmt.Errorf("case %d: realised DAG has %d visits, abstract tree %d", c.ID, len(visits), c.N)
	}
	pathIdx := map[string]int{}
	for _, v := range visits {
		if v.Par != t.Par[v.Idx] || v.Dep != t.Dep[v.Idx] || d.LabelOf[v.Cid] != t.Cid[v.Idx] {
			return obs, fmt.Errorf("case %d: visit %d realised as (par %d dep %d label %d), abstract (%d %d %d)", c.ID, v.Idx, v.Par, v.Dep, d.LabelOf[v.Cid], t.Par[v.Idx], t.Dep[v.Idx], t.Cid[v.Idx])
		}
		pathIdx[v.Path] = v.Idx
	}
	ctx, cancel := context.WithCancel(context.Background())
	defer cancel()
	net := verifnet.New()
	pR, pS := peer.ID("req-peer-R"), peer.ID("resp-peer-S")
	epR, epS := net.Endpoint(ctx, pR), net.Endpoint(ctx, pS)
	stR, stS := dagreal.NewStore(subset(d, c.Sl)), dagreal.NewStore(subset(d, c.Sr))
	var optsR, optsS []gsimpl.Option
	if c.ReqBudget > 0 {
		optsR = append(optsR, gsimpl.MaxLinksPerOutgoingRequests(uint64(c.ReqBudget)))
	}
	if c.RespBudget > 0 {
		optsS = append(optsS, gsimpl.MaxLinksPerIncomingRequests(uint64(c.RespBudget)))
	}
	var hookR, hookS uint64
	if c.Budget > 0 {
		b := uint64(c.Budget)
		switch c.Where {
		case "reqG":
			optsR = append(optsR, gsimpl.MaxLinksPerOutgoingRequests(b))
		case "reqH":
			hookR = b
		case "reqGH": // the hook value is the smaller one
			optsR = append(optsR, gsimpl.MaxLinksPerOutgoingRequests(b+1))
			hookR = b
		case "reqHG": // the global value is the smaller one
			optsR = append(optsR, gsimpl.MaxLinksPerOutgoingRequests(b))
			hookR = b + 1
		case "respG":
			optsS = append(optsS, gsimpl.MaxLinksPerIncomingRequests(b))
		case "respH":
			hookS = b
		case "respGH":
			optsS = append(optsS, gsimpl.MaxLinksPerIncomingRequests(b+1))
			hookS = b
		case "respHG":
			optsS = append(optsS, gsimpl.MaxLinksPerIncomingRequests(b))
			hookS = b + 1
		default:
			return obs, fmt.Errorf("unknown budget placement %q", c.Where)
		}
	}
	gsR := gsimpl.New(ctx, epR, stR.LinkSystem(), optsR...)
	var gsS graphsync.GraphExchange
	if c.Adv {
		epS.SetDelegate(&advResponder{ep: epS, c: &c, d: d, ctx: ctx})
	} else {
		gsS = gsimpl.New(ctx, epS, stS.LinkSystem(), optsS...)
	}
	if hookR > 0 {
		gsR.RegisterOutgoingRequestHook(func(p peer.ID, r graphsync.RequestData, ha graphsync.OutgoingRequestHookActions) { ha.MaxLinks(hookR) })
	}
	if hookS > 0 && gsS != nil {
		gsS.RegisterIncomingRequestHook(func(p peer.ID, r graphsync.RequestData, ha graphsync.IncomingRequestHookActions) { ha.MaxLinks(hookS) })
	}
	var exts []graphsync.ExtensionData
	if c.UserSkip > 0 {
		exts = append(exts, graphsync.ExtensionData{Name: graphsync.ExtensionsDoNotSendFirstBlocks, Data: donotsendfirstblocks.EncodeDoNotSendFirstBlocks(int64(c.UserSkip))})
	}
	if len(c.Ignore) > 0 {
		set := cid.NewSet()
		for _, l := range c.Ignore {
			set.Add(d.ByLabel[l])
		}
		exts = append(exts, graphsync.ExtensionData{Name: graphsync.ExtensionDoNotSendCIDs, Data: cidset.EncodeCidSet(set)})
	}
	if c.Keyed && c.DedupKey == "" {
		c.DedupKey = "scope-k1"
	}
	if c.DedupKey != "" {
		n, _ := dedupkey.EncodeDedupKey(c.DedupKey)
		exts = append(exts, graphsync.ExtensionData{Name: graphsync.ExtensionDeDupByKey, Data: n})
	}
	reqCtx, reqCancel := context.WithCancel(ctx)
	defer reqCancel()
	// ---- C06: pause at the PauseAt-th block hook call, resume per c.Resume
	var pmu sync.Mutex
	pauseTook, whilePaused := false, 0
	if c.PauseSide != "" && !c.Adv {
		var reqID graphsync.RequestID
		haveID := make(chan struct{})
		var idOnce sync.Once
		requested := make(chan struct{})
		var reqOnce sync.Once
		hookCalls := 0
		newReqsOnWire := func() int {
			n := 0
			for _, s := range net.Log() {
				if s.From == pR {
					for _, r := range s.Msg.Requests() {
						if r.Type() == graphsync.RequestTypeNew {
							n++
						}
					}
				}
			}
			return n
		}
		blockMsgs := func() int {
			n := 0
			for _, s := range net.Log() {
				if s.From == pS && len(s.Msg.Blocks()) > 0 {
					n++
				}
			}
			return n
		}
		quiet := func(d time.Duration) {
			last, since := -1, time.Now()
			for start := time.Now(); time.Since(start) < 2*time.Second; {
				n := len(net.Log())
				if n != last || net.InFlight() > 0 {
					last, since = n, time.Now()
				} else if time.Since(since) > d {
					return
				}
				time.Sleep(time.Millisecond)
			}
		}
		if c.Resume == "held" {
			// everything the responder sends after its first message waits until the requestor's second "new" request is out
			fromS := 0
			released := make(chan struct{})
			go func() {
				defer close(released)
				for start := time.Now(); time.Since(start) < 400*time.Millisecond; time.Sleep(time.Millisecond) {
					if newReqsOnWire() >= 2 {
						return
					}
					select {
					case <-ctx.Done():
						return
					default:
					}
				}
			}()
			net.SetPolicy(func(from, to peer.ID, n int, m gsmsg.GraphSyncMessage) verifnet.Outcome {
				if from == pS {
					pmu.Lock()
					fromS++
					k := fromS
					pmu.Unlock()
					if k > 1 {
						select {
						case <-released:
						case <-ctx.Done():
						}
					}
				}
				return verifnet.Deliver
			})
		}
		doPause := func(byHook func()) {
			pmu.Lock()
			hookCalls++
			k := hookCalls
			pmu.Unlock()
			if k != c.PauseAt {
				return
			}
			reqOnce.Do(func() { close(requested) })
			if c.PauseVia == "hook" {
				byHook()
			} else {
				go func() {
					<-haveID
					cctx, cc := context.WithTimeout(ctx, 2*time.Second)
					defer cc()
					if c.PauseSide == "req" {
						_ = gsR.Pause(cctx, reqID)
					} else {
						_ = gsS.Pause(cctx, reqID)
					}
				}()
			}
		}
		if c.PauseSide == "both" {
			// the responder pauses by hook at block PauseAt; when that is visible and the network is quiet the requestor
			// pauses through the API (from outside its executor); then both resume in the order given by c.Resume, and a
			// requestor pause that takes effect later (at its next block) is resumed once the network is quiet again
			gsS.RegisterOutgoingBlockHook(func(p peer.ID, r graphsync.RequestData, b graphsync.BlockData, ha graphsync.OutgoingBlockHookActions) {
				idOnce.Do(func() { reqID = r.ID(); close(haveID) })
				pmu.Lock()
				hookCalls++
				k := hookCalls
				pmu.Unlock()
				if k == c.PauseAt {
					ha.PauseResponse()
					reqOnce.Do(func() { close(requested) })
				}
			})
			statesOf := func(side string) graphsync.RequestState {
				if side == "req" {
					return gsR.(*gsimpl.GraphSync).PeerState(pS).OutgoingState.RequestStates[reqID]
				}
				return gsS.(*gsimpl.GraphSync).PeerState(pR).IncomingState.RequestStates[reqID]
			}
			call := func(f func(context.Context, graphsync.RequestID) error) {
				cctx, cc := context.WithTimeout(ctx, 2*time.Second)
				defer cc()
				_ = f(cctx, reqID)
			}
			go func() {
				select {
				case <-requested:
				case <-ctx.Done():
					return
				}
				for statesOf("resp") != graphsync.Paused {
					select {
					case <-ctx.Done():
						return
					case <-time.After(200 * time.Microsecond):
					}
				}
				pmu.Lock()
				pauseTook = true
				pmu.Unlock()
				quiet(25 * time.Millisecond)
				call(gsR.Pause)
				time.Sleep(10 * time.Millisecond)
				unR := func(c2 context.Context, id graphsync.RequestID) error { return gsR.Unpause(c2, id) }
				unS := func(c2 context.Context, id graphsync.RequestID) error { return gsS.Unpause(c2, id) }
				if c.Resume == "reqfirst" {
					call(unR)
					call(unS)
				} else {
					call(unS)
					call(unR)
				}
				for {
					select {
					case <-ctx.Done():
						return
					case <-time.After(2 * time.Millisecond):
					}
					if statesOf("req") == graphsync.Paused {
						quiet(25 * time.Millisecond)
						call(unR)
					}
				}
			}()
		} else if c.PauseSide == "req" {
			gsR.RegisterIncomingBlockHook(func(p peer.ID, r graphsync.ResponseData, b graphsync.BlockData, ha graphsync.IncomingBlockHookActions) {
				idOnce.Do(func() { reqID = r.RequestID(); close(haveID) })
				doPause(ha.PauseRequest)
			})
		} else {
			gsS.RegisterOutgoingBlockHook(func(p peer.ID, r graphsync.RequestData, b graphsync.BlockData, ha graphsync.OutgoingBlockHookActions) {
				idOnce.Do(func() { reqID = r.ID(); close(haveID) })
				doPause(ha.PauseResponse)
			})
		}
		isPaused := func() bool {
			var st map[graphsync.RequestID]graphsync.RequestState
			if c.PauseSide == "req" {
				st = gsR.(*gsimpl.GraphSync).PeerState(pS).OutgoingState.RequestStates
			} else {
				st = gsS.(*gsimpl.GraphSync).PeerState(pR).IncomingState.RequestStates
			}
			return st[reqID] == graphsync.Paused
		}
		go func() {
			if c.PauseSide == "both" {
				return
			}
			select {
			case <-requested:
			case <-ctx.Done():
				return
			}
			<-haveID
			// an API pause "may take 1 or more blocks to process", and the exchange may end before it does
			for !isPaused() {
				select {
				case <-ctx.Done():
					return
				case <-time.After(200 * time.Microsecond):
				}
			}
			pmu.Lock()
			pauseTook = true
			pmu.Unlock()
			switch c.Resume {
			case "quiet":
				quiet(25 * time.Millisecond)
				if c.PauseSide == "resp" {
					b1 := blockMsgs()
					time.Sleep(40 * time.Millisecond)
					pmu.Lock()
					whilePaused = blockMsgs() - b1
					pmu.Unlock()
				}
			}
			cctx, cc := context.WithTimeout(ctx, 2*time.Second)
			defer cc()
			if c.PauseSide == "req" {
				_ = gsR.Unpause(cctx, reqID)
			} else {
				_ = gsS.Unpause(cctx, reqID)
			}
		}()
	}
	progress, errs := gsR.Request(reqCtx, pS, cidlink.Link{Cid: d.Root}, sel, exts...)
	deadline := time.After(timeout)
	if c.Adv && (c.Final == "none") {
		// the adversary never finishes: give the requestor time to consume everything, then cancel the request
		go func() {
			time.Sleep(100 * time.Millisecond)
			reqCancel()
		}()
	}
	var gotNodes []dagreal.NodeVisit
	deliveredSet := map[int]bool{}
	missingSet := map[int]bool{}
	for progress != nil || errs != nil {
		select {
		case p, ok := <-progress:
			if !ok {
				progress = nil
				continue
			}
			bp := p.LastBlock.Path.String()
			gotNodes = append(gotNodes, dagreal.NodeVisit{Path: p.Path.String(), BlockPath: bp})
			idx, known := pathIdx[bp]
			if !known {
				obs.OtherErrs = append(obs.OtherErrs, "delivered node in unknown block path "+bp)
				continue
			}
			if !deliveredSet[idx] {
				deliveredSet[idx] = true
				obs.Delivered = append(obs.Delivered, idx)
			}
		case e, ok := <-errs:
			if !ok {
				errs = nil
				continue
			}
			if me, isMissing := e.(graphsync.RemoteMissingBlockErr); isMissing {
				idx, known := pathIdx[me.Path.String()]
				if known && visits[idx-1].Cid == me.Link.(cidlink.Link).Cid {
					if !missingSet[idx] {
						missingSet[idx] = true
						obs.Missing = append(obs.Missing, idx)
					}
					continue
				}
			}
			var be *traversal.ErrBudgetExceeded
			if errors.As(e, &be) {
				obs.BudgetErr = true
				continue
			}
			obs.OtherErrs = append(obs.OtherErrs, fmt.Sprintf("%T: %v", e, e))
		case <-deadline:
			obs.Hang = true
			progress, errs = nil, nil
		}
	}
	// node-level projection: reference node sequence restricted to the delivered blocks
	var want []dagreal.NodeVisit
	for _, n := range refNodes {
		if deliveredSet[pathIdx[n.BlockPath]] {
			want = append(want, n)
		}
	}
	obs.NodesOK = len(want) == len(gotNodes)
	if obs.NodesOK {
		for i := range want {
			if want[i] != gotNodes[i] {
				obs.NodesOK = false
				break
			}
		}
	}
	obs.NodesPrefixOK = len(gotNodes) <= len(want)
	if obs.NodesPrefixOK {
		for i := range gotNodes {
			if want[i] != gotNodes[i] {
				obs.NodesPrefixOK = false
				break
			}
		}
	}
	obs.NNodes = len(gotNodes)
	sort.Ints(obs.Missing)
	for _, cc := range stR.Cids() {
		if l, ok := d.LabelOf[cc]; ok {
			obs.Store = append(obs.Store, l)
		} else {
			obs.OtherErrs = append(obs.OtherErrs, "foreign block in requestor store")
		}
	}
	sort.Ints(obs.Store)
	// every committed write must hash to its link
	for _, w := range stR.WritesCopy() {
		pref := w.Link.Prefix()
		c2, err := pref.Sum(w.Data)
		if err != nil || !c2.Equals(w.Link) {
			obs.OtherErrs = append(obs.OtherErrs, "stored bytes do not hash to their link")
			obs.BadHash = true
		}
		if l, ok := d.LabelOf[w.Link]; ok {
			obs.Writes = append(obs.Writes, l)
		} else {
			obs.Writes = append(obs.Writes, -1)
		}
	}
	// wire: the requestor may finish before the responder's terminal status arrives; wait for it
	log := net.Log()
	sentNew := false
	for _, s := range log {
		if s.From == pR {
			for _, r := range s.Msg.Requests() {
				if r.Type() == graphsync.RequestTypeNew {
					sentNew = true
				}
			}
		}
	}
	if sentNew && !obs.Hang && !c.Adv {
		for tries := 0; tries < 5000; tries++ {
			if _, st := wireOf(log, pS, d); st != "" && st != "paused" {
				break
			}
			cancelled := false
			for _, s := range log {
				if s.From == pR {
					for _, r := range s.Msg.Requests() {
						if r.Type() == graphsync.RequestTypeCancel {
							cancelled = true
						}
					}
				}
			}
			if cancelled {
				break // the requestor cancelled: the responder owes no terminal status
			}
			time.Sleep(time.Millisecond)
			log = net.Log()
		}
	}
	for _, s := range log {
		if s.From == pR {
			obs.ReqMsgs++
			for _, r := range s.Msg.Requests() {
				if r.Type() == graphsync.RequestTypeCancel {
					obs.CancelSent = true
				}
				if r.Type() == graphsync.RequestTypeNew {
					obs.ReqSent = true
					if n, has := r.Extension(graphsync.ExtensionsDoNotSendFirstBlocks); has {
						v, _ := donotsendfirstblocks.DecodeDoNotSendFirstBlocks(n)
						obs.ReqSkip = int(v)
					}
				}
			}
		}
	}
	pmu.Lock()
	obs.PauseTook, obs.WhilePaused = pauseTook, whilePaused
	pmu.Unlock()
	for _, s := range log {
		if s.From == pR {
			for _, r := range s.Msg.Requests() {
				if r.Type() == graphsync.RequestTypeNew {
					obs.NewReqs++
				}
			}
		}
	}
	obs.Wire, obs.Status = wireOf(log, pS, d)
	obs.ReqLoads, obs.RespLoads = stR.NReads(), stS.NReads()
	for _, e := range []*[]int{&obs.Delivered, &obs.Missing, &obs.Store, &obs.Writes} {
		if *e == nil {
			*e = []int{}
		}
	}
	if obs.OtherErrs == nil {
		obs.OtherErrs = []string{}
	}
	if obs.Wire == nil {
		obs.Wire = []wireItem{}
	}
	return obs, nil
}

var _ = gsmsg.NewCancelRequest
var _ ipld.Node

func exchRun(args []string) error {
	fs := flag.NewFlagSet("exch-run", flag.ExitOnError)
	in := fs.String("in", "", "cases ndjson")
	out := fs.String("out", "", "cases+observations ndjson")
	timeoutS := fs.Int("timeout", 20, "per-case timeout (s)")
	par := fs.Int("par", runtime.NumCPU(), "")
	fs.Parse(args)
	f, err := os.Open(*in)
	if err != nil {
		return err
	}
	defer f.Close()
	var cases []exCase
	sc := bufio.NewScanner(f)
	sc.Buffer(make([]byte, 1<<20), 1<<26)
	for sc.Scan() {
		var c exCase
		if err := json.Unmarshal(sc.Bytes(), &c); err != nil {
			return err
		}
		if c.ID == 0 {
			c.ID = len(cases) + 1
		}
		cases = append(cases, c)
	}
	type res struct {
		Case exCase `json:"case"`
		Obs  exObs  `json:"obs"`
	}
	results := make([]res, len(cases))
	errsOut := make([]error, len(cases))
	var wg sync.WaitGroup
	sem := make(chan struct{}, *par)
	for i := range cases {
		wg.Add(1)
		sem <- struct{}{}
		go func(i int) {
			defer wg.Done()
			defer func() { <-sem }()
			o, err := runExCase(cases[i], time.Duration(*timeoutS)*time.Second)
			if err == nil && o.Hang {
				// a hang must be reproducible to count
				o2, err2 := runExCase(cases[i], time.Duration(*timeoutS)*time.Second)
				if err2 == nil && !o2.Hang {
					o = o2
					o.Note = "first run hit the deadline, second did not"
				}
			}
			results[i] = res{cases[i], o}
			errsOut[i] = err
		}(i)
	}
	wg.Wait()
	w, err := os.Create(*out)
	if err != nil {
		return err
	}
	defer w.Close()
	bw := bufio.NewWriter(w)
	defer bw.Flush()
	enc := json.NewEncoder(bw)
	for i := range results {
		if errsOut[i] != nil {
			return errsOut[i]
		}
		enc.Encode(results[i])
	}
	return nil
}

// advResponder is a raw peer that answers the first new request with the case's script.
type advResponder struct {
	ep   *verifnet.Endpoint
	c    *exCase
	d    *dagreal.DAG
	ctx  context.Context
	once sync.Once
}

func (a *advResponder) ReceiveError(p peer.ID, err error) {}
func (a *advResponder) Connected(p peer.ID)               {}
func (a *advResponder) Disconnected(p peer.ID)            {}
func (a *advResponder) ReceiveMessage(ctx context.Context, sender peer.ID, m gsmsg.GraphSyncMessage) {
	for _, r := range m.Requests() {
		if r.Type() != graphsync.RequestTypeNew {
			continue
		}
		id := r.ID()
		a.once.Do(func() { go a.play(sender, id) })
	}
}

func (a *advResponder) cidFor(label int) (cid.Cid, []byte) {
	if c, ok := a.d.ByLabel[label]; ok {
		return c, a.d.Blocks[c]
	}
	data := []byte(fmt.Sprintf("foreign-block-%d-%d", a.c.ID, label))
	h, _ := mh.Sum(data, mh.SHA2_256, -1)
	return cid.NewCidV1(cid.Raw, h), data
}

func (a *advResponder) play(to peer.ID, id graphsync.RequestID) {
	var chunks [][]advItem
	if a.c.Chunk == "one" {
		for _, it := range a.c.Script {
			chunks = append(chunks, []advItem{it})
		}
	} else if len(a.c.Script) > 0 {
		chunks = [][]advItem{a.c.Script}
	}
	send := func(items []advItem, status graphsync.ResponseStatusCode) {
		var md []gsmsg.GraphSyncLinkMetadatum
		blks := map[cid.Cid]blocks.Block{}
		for _, it := range items {
			c, data := a.cidFor(it.C)
			act := graphsync.LinkActionMissing
			if it.Followed {
				act = graphsync.LinkActionPresent
			}
			md = append(md, gsmsg.GraphSyncLinkMetadatum{Link: c, Action: act})
			if it.Blk {
				b, _ := blocks.NewBlockWithCid(data, c)
				blks[c] = b
			} else if a.c.Forge {
				b, _ := blocks.NewBlockWithCid([]byte("forged bytes for "+c.String()), c)
				blks[c] = b
			}
		}
		msg := gsmsg.NewMessage(nil, map[graphsync.RequestID]gsmsg.GraphSyncResponse{id: gsmsg.NewResponse(id, status, md)}, blks)
		_ = a.ep.SendMessage(a.ctx, to, msg)
	}
	for _, ch := range chunks {
		send(ch, graphsync.PartialResponse)
	}
	switch a.c.Final {
	case "full":
		send(nil, graphsync.RequestCompletedFull)
	case "failed":
		send(nil, graphsync.RequestFailedUnknown)
	}
}
