package main

import "github.com/ipld/go-ipld-prime"

type ipldLink = ipld.Link
