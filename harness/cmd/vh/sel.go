package main

import (
	"bufio"
	"encoding/json"
	"flag"
	"fmt"
	"os"

	"github.com/ipfs/go-graphsync/selectorvalidator"
	"github.com/ipld/go-ipld-prime/datamodel"
	"github.com/ipld/go-ipld-prime/fluent"
	"github.com/ipld/go-ipld-prime/node/basicnode"
	"github.com/ipld/go-ipld-prime/traversal/selector"
)

func init() { register("sel-check", selCheck) }

type selAST struct {
	K   string  `json:"k"`
	N   *selAST `json:"n"`
	A   *selAST `json:"a"`
	B   *selAST `json:"b"`
	Lim int64   `json:"lim"`
}

// build turns the abstract selector into a selector-spec IPLD node, writing the keyed unions
// directly (no selector builder), so what is validated is exactly the wire-level structure.
func (s *selAST) build() datamodel.Node {
	mk := func(key string, body func(fluent.MapAssembler)) datamodel.Node {
		return fluent.MustBuildMap(basicnode.Prototype.Map, 1, func(ma fluent.MapAssembler) {
			ma.AssembleEntry(key).CreateMap(-1, body)
		})
	}
	switch s.K {
	case "matcher":
		return mk(selector.SelectorKey_Matcher, func(ma fluent.MapAssembler) {})
	case "edge":
		return mk(selector.SelectorKey_ExploreRecursiveEdge, func(ma fluent.MapAssembler) {})
	case "all":
		return mk(selector.SelectorKey_ExploreAll, func(ma fluent.MapAssembler) {
			ma.AssembleEntry(selector.SelectorKey_Next).AssignNode(s.N.build())
		})
	case "index":
		return mk(selector.SelectorKey_ExploreIndex, func(ma fluent.MapAssembler) {
			ma.AssembleEntry(selector.SelectorKey_Index).AssignInt(0)
			ma.AssembleEntry(selector.SelectorKey_Next).AssignNode(s.N.build())
		})
	case "range":
		return mk(selector.SelectorKey_ExploreRange, func(ma fluent.MapAssembler) {
			ma.AssembleEntry(selector.SelectorKey_Start).AssignInt(0)
			ma.AssembleEntry(selector.SelectorKey_End).AssignInt(2)
			ma.AssembleEntry(selector.SelectorKey_Next).AssignNode(s.N.build())
		})
	case "interp":
		return mk(selector.SelectorKey_ExploreInterpretAs, func(ma fluent.MapAssembler) {
			ma.AssembleEntry(selector.SelectorKey_As).AssignString("unixfs")
			ma.AssembleEntry(selector.SelectorKey_Next).AssignNode(s.N.build())
		})
	case "fields1":
		return mk(selector.SelectorKey_ExploreFields, func(ma fluent.MapAssembler) {
			ma.AssembleEntry(selector.SelectorKey_Fields).CreateMap(1, func(fa fluent.MapAssembler) {
				fa.AssembleEntry("x").AssignNode(s.N.build())
			})
		})
	case "fields2":
		return mk(selector.SelectorKey_ExploreFields, func(ma fluent.MapAssembler) {
			ma.AssembleEntry(selector.SelectorKey_Fields).CreateMap(2, func(fa fluent.MapAssembler) {
				fa.AssembleEntry("x").AssignNode(s.A.build())
				fa.AssembleEntry("y").AssignNode(s.B.build())
			})
		})
	case "union":
		return fluent.MustBuildMap(basicnode.Prototype.Map, 1, func(ma fluent.MapAssembler) {
			ma.AssembleEntry(selector.SelectorKey_ExploreUnion).CreateList(2, func(la fluent.ListAssembler) {
				la.AssembleValue().AssignNode(s.A.build())
				la.AssembleValue().AssignNode(s.B.build())
			})
		})
	case "rec":
		return mk(selector.SelectorKey_ExploreRecursive, func(ma fluent.MapAssembler) {
			ma.AssembleEntry(selector.SelectorKey_Limit).CreateMap(1, func(la fluent.MapAssembler) {
				if s.Lim == 0 {
					la.AssembleEntry(selector.SelectorKey_LimitNone).CreateMap(0, func(fluent.MapAssembler) {})
				} else {
					la.AssembleEntry(selector.SelectorKey_LimitDepth).AssignInt(s.Lim)
				}
			})
			ma.AssembleEntry(selector.SelectorKey_Sequence).AssignNode(s.N.build())
		})
	}
	panic("unknown selector kind " + s.K)
}

func buildSelSafe(s *selAST) (n datamodel.Node, err error) {
	defer func() {
		if r := recover(); r != nil {
			err = fmt.Errorf("build panic: %v", r)
		}
	}()
	return s.build(), nil
}

// selCheck reads {"ast":..., "valid":bool} lines and compares ValidateMaxRecursionDepth with valid
// for every AST that go-ipld-prime parses as a well-formed selector.
func selCheck(args []string) error {
	fs := flag.NewFlagSet("sel-check", flag.ExitOnError)
	in := fs.String("in", "", "")
	max := fs.Int64("max", 100, "")
	fs.Parse(args)
	f, err := os.Open(*in)
	if err != nil {
		return err
	}
	defer f.Close()
	sc := bufio.NewScanner(f)
	sc.Buffer(make([]byte, 1<<20), 1<<26)
	type bad struct {
		AST   json.RawMessage `json:"ast"`
		Valid bool            `json:"valid"`
		Got   string          `json:"got"`
	}
	var bads []bad
	total, wellFormed, nInvalid := 0, 0, 0
	var samples []json.RawMessage
	for sc.Scan() {
		var rec struct {
			AST   json.RawMessage `json:"ast"`
			Valid bool            `json:"valid"`
		}
		if err := json.Unmarshal(sc.Bytes(), &rec); err != nil {
			return err
		}
		var a selAST
		json.Unmarshal(rec.AST, &a)
		total++
		node, err := buildSelSafe(&a)
		if err != nil {
			return err
		}
		if _, err := selector.ParseSelector(node); err != nil {
			continue // not a well-formed selector: outside the property's quantifier
		}
		wellFormed++
		if !rec.Valid {
			nInvalid++
		}
		verr := selectorvalidator.ValidateMaxRecursionDepth(node, *max)
		if (verr == nil) != rec.Valid {
			got := "accepted"
			if verr != nil {
				got = "rejected: " + verr.Error()
			}
			bads = append(bads, bad{rec.AST, rec.Valid, got})
		}
		if len(samples) < 3 && !rec.Valid && wellFormed%50 == 0 {
			samples = append(samples, append([]byte(nil), rec.AST...))
		}
	}
	return json.NewEncoder(os.Stdout).Encode(map[string]any{"total": total, "well_formed": wellFormed,
		"well_formed_invalid": nInvalid, "bad": bads, "samples": samples})
}
