package main

import (
	"bufio"
	"context"
	"encoding/json"
	"errors"
	"flag"
	"fmt"
	"os"
	"runtime"
	"sort"
	"sync"
	"time"

	"github.com/ipfs/go-cid"
	"github.com/ipfs/go-graphsync"
	gsimpl "github.com/ipfs/go-graphsync/impl"
	gsmsg "github.com/ipfs/go-graphsync/message"
	"github.com/ipfs/go-graphsync/messagequeue"
	"github.com/ipfs/go-graphsync/responsemanager/queryexecutor"
	"github.com/ipld/go-ipld-prime/node/basicnode"
	"github.com/libp2p/go-libp2p/core/peer"

	"verifharness/dagreal"
	"verifharness/verifnet"
)

func init() { register("resp-run", respRun) }

type respEv struct {
	Ev string `json:"ev"` // new | cancel | qnew | cmdcancel | pause | unpause | sendok | sendfail | go | hook
	A  string `json:"a"`
	At string `json:"at"` // idle | load | hook
	K  int    `json:"k"`
}
type respCase struct {
	ID     int             `json:"id"`
	Script []respEv        `json:"script"`
	// NoReopen: after a scripted send failure the responder cannot open a sender to the peer again either (for the model the
	// outcome of the send is the same: failed)
	NoReopen bool `json:"noReopen,omitempty"`
	Finals json.RawMessage `json:"finals,omitempty"`
}
type respObs struct {
	State        string   `json:"state"`      // request state reported for P's request, "gone" if not listed
	Completed    []string `json:"completed"`  // statuses reported to completed listeners for (P, id)
	Cancelled    int      `json:"cancelled"`  // cancel-listener calls for (P, id)
	NetErr       int      `json:"neterr"`     // network-error listener calls for (P, id)
	Protected    []string `json:"protected"`  // protections still held for P
	ProtectOps   []string `json:"protectOps"` // protect/unprotect sequence for P's request tag
	Diag         []string `json:"diag"`
	Task         string   `json:"task"`
	WireP        []string `json:"wireP"` // per message delivered to P: terminal status name or "-" ; "!" prefix = send failed
	BlocksToP    int      `json:"blocksToP"`
	QCompleted   []string `json:"qCompleted"`
	QWire        int      `json:"qWire"`
	Desync       string   `json:"desync"`
	Wedged       bool     `json:"wedged"`
	ActiveStats  uint64   `json:"activeStats"`
	PendingStats uint64   `json:"pendingStats"`
	AllocTotal   uint64   `json:"allocTotal"`
	FollowUp     string   `json:"followUp"` // terminal status reported for a fresh request of P sent after everything ended ("" = never completed)
}

const respK = 2

// the query executor's hook is a package variable: one dispatcher for all cases running in this process, by request id
var respFinishGates sync.Map // graphsync.RequestID -> func()

// builds and extractions of the responder's message queue, by request id (the hook is a package variable too; mq-run and
// conc-run install their own for the time they run)
var respMQEvents sync.Map // graphsync.RequestID -> func(event string, topic messagequeue.Topic)

func init() {
	messagequeue.VerifHook = func(q *messagequeue.MessageQueue, event string, topic messagequeue.Topic, ids []graphsync.RequestID) {
		for _, id := range ids {
			if f, ok := respMQEvents.Load(id); ok {
				f.(func(string, messagequeue.Topic))(event, topic)
				return
			}
		}
	}
	queryexecutor.VerifHook = func(event string, id graphsync.RequestID) {
		if event != "finishing" {
			return
		}
		if f, ok := respFinishGates.Load(id); ok {
			f.(func())()
		}
	}
}

func runRespCase(c respCase) (obs respObs) {
	ctx, cancelAll := context.WithCancel(context.Background())
	defer cancelAll()
	mkChain := func(label string) *dagreal.DAG {
		t := dagreal.Tree{N: respK, Par: make([]int, respK+1), Dep: make([]int, respK+1), Cid: make([]int, respK+1)}
		for i := 1; i <= respK; i++ {
			t.Par[i], t.Dep[i], t.Cid[i] = i-1, i-1, i
		}
		d, _ := dagreal.Build(t, label)
		return d
	}
	d := mkChain(fmt.Sprintf("rs%d", c.ID))
	dq := mkChain(fmt.Sprintf("rsq%d", c.ID))
	sel := dagreal.AllSelector(20)
	net := verifnet.New()
	pS, pP, pQ, pX := peer.ID("responder-S"), peer.ID("requestor-P"), peer.ID("other-Q"), peer.ID("holder-X")
	epS, epP, epQ, epX := net.Endpoint(ctx, pS), net.Endpoint(ctx, pP), net.Endpoint(ctx, pQ), net.Endpoint(ctx, pX)
	epP.SetDelegate(&rawRecv{})
	epQ.SetDelegate(&rawRecv{})
	epX.SetDelegate(&rawRecv{})
	// X's requests hold the response manager's loop inside their request hook until released
	holdArrived := make(chan chan struct{}, 4)
	var mu sync.Mutex
	// ---- gates
	type arrival struct {
		kind  string
		k     int
		reply chan string
	}
	gates := make(chan arrival, 8)
	auto := false
	gate := func(kind string, k int) string {
		mu.Lock()
		a := auto
		mu.Unlock()
		if a {
			return "ok"
		}
		arr := arrival{kind, k, make(chan string, 1)}
		select {
		case gates <- arr:
		case <-ctx.Done():
			return "ok"
		}
		select {
		case r := <-arr.reply:
			return r
		case <-ctx.Done():
			return "ok"
		}
	}
	// sends from S to P are held for a decision while hold is on
	sends := make(chan chan verifnet.Outcome, 8)
	holdSends := false
	for _, e := range c.Script {
		if e.Ev == "sendok" || e.Ev == "sendfail" {
			holdSends = true
		}
	}
	var wireP []string
	blocksToP := 0
	qWire := 0
	net.SetPolicy(func(from, to peer.ID, n int, m gsmsg.GraphSyncMessage) verifnet.Outcome {
		if from != pS {
			return verifnet.Deliver
		}
		if to == pX {
			return verifnet.Deliver
		}
		if to == pQ {
			mu.Lock()
			qWire++
			mu.Unlock()
			return verifnet.Deliver
		}
		out := verifnet.Deliver
		mu.Lock()
		h := holdSends && !auto
		mu.Unlock()
		if h {
			dec := make(chan verifnet.Outcome, 1)
			select {
			case sends <- dec:
				select {
				case out = <-dec:
				case <-ctx.Done():
				}
			case <-ctx.Done():
			}
		}
		final := "-"
		for _, r := range m.Responses() {
			if r.Status().IsTerminal() {
				final = statusName(r.Status())
			}
		}
		mu.Lock()
		if out == verifnet.Fail {
			final = "!" + final
		} else {
			blocksToP += len(m.Blocks())
		}
		wireP = append(wireP, final)
		mu.Unlock()
		return out
	})
	stS := dagreal.NewStore(d.Blocks)
	for k, b := range dq.Blocks {
		stS.Put(k, b)
	}
	nload := 0
	stS.OnRead = func(cc cid.Cid, ok bool) {
		if _, mine := d.LabelOf[cc]; mine {
			mu.Lock()
			nload++
			k := nload
			mu.Unlock()
			gate("load", k)
		}
	}
	gsS := gsimpl.New(ctx, epS, stS.LinkSystem(), gsimpl.MessageSendRetries(1), gsimpl.RejectAllRequestsByDefault(), gsimpl.MaxInProgressIncomingRequestsPerPeer(1)).(*gsimpl.GraphSync)
	newDecision := "accept"
	errHook := errors.New("verif: request hook error")
	errBlock := errors.New("verif: block hook error")
	gsS.RegisterIncomingRequestHook(func(p peer.ID, r graphsync.RequestData, ha graphsync.IncomingRequestHookActions) {
		if p == pQ {
			ha.ValidateRequest()
			return
		}
		if p == pX {
			rel := make(chan struct{})
			select {
			case holdArrived <- rel:
				select {
				case <-rel:
				case <-ctx.Done():
				}
			case <-ctx.Done():
			}
			return
		}
		mu.Lock()
		dec := newDecision
		mu.Unlock()
		switch dec {
		case "accept":
			ha.ValidateRequest()
		case "pause":
			ha.ValidateRequest()
			ha.PauseResponse()
		case "error":
			ha.ValidateRequest()
			ha.TerminateWithError(errHook)
		case "reject":
		}
	})
	// update hooks: for a paused response they run in the manager's loop and take the decision the script attached to the
	// update event; for a running one they run in the executor, which the script holds there
	loopDecision := ""
	errUpd := errors.New("verif: update hook error")
	gsS.RegisterRequestUpdatedHook(func(p peer.ID, r graphsync.RequestData, u graphsync.RequestData, ha graphsync.RequestUpdatedHookActions) {
		if p != pP {
			return
		}
		mu.Lock()
		dec := loopDecision
		loopDecision = ""
		mu.Unlock()
		if dec == "" {
			dec = gate("updhook", 0)
		}
		switch dec {
		case "loop-unpause":
			ha.UnpauseResponse()
		case "loop-error", "error":
			ha.TerminateWithError(errUpd)
		}
	})
	nhook := 0
	gsS.RegisterOutgoingBlockHook(func(p peer.ID, r graphsync.RequestData, b graphsync.BlockData, ha graphsync.OutgoingBlockHookActions) {
		if p != pP {
			return
		}
		mu.Lock()
		nhook++
		k := nhook
		mu.Unlock()
		switch gate("hook", k) {
		case "pause":
			ha.PauseResponse()
		case "error":
			ha.TerminateWithError(errBlock)
		}
	})
	reqID := graphsync.NewRequestID()
	respFinishGates.Store(reqID, func() { gate("finishing", 0) })
	defer respFinishGates.Delete(reqID)
	// the sender has caught up when every message built for this request has been extracted (it is then in SendMsg or sent)
	builtT, extractedT := map[messagequeue.Topic]bool{}, map[messagequeue.Topic]bool{}
	respMQEvents.Store(reqID, func(event string, topic messagequeue.Topic) {
		mu.Lock()
		switch event {
		case "built":
			builtT[topic] = true
		case "extract":
			extractedT[topic] = true
		}
		mu.Unlock()
	})
	defer respMQEvents.Delete(reqID)
	senderCaughtUp := func() {
		for i := 0; i < 400; i++ {
			mu.Lock()
			ok := true
			for t := range builtT {
				if !extractedT[t] {
					ok = false
				}
			}
			mu.Unlock()
			if ok {
				return
			}
			time.Sleep(50 * time.Microsecond)
		}
	}
	followID := graphsync.NewRequestID()
	followUp := ""
	var completed, qCompleted []string
	cancelled, neterr := 0, 0
	gsS.RegisterCompletedResponseListener(func(p peer.ID, r graphsync.RequestData, st graphsync.ResponseStatusCode) {
		mu.Lock()
		if p == pP && r.ID() == reqID {
			completed = append(completed, statusName(st))
		} else if p == pP && r.ID() == followID {
			followUp = statusName(st)
		} else if p == pQ {
			qCompleted = append(qCompleted, statusName(st))
		}
		mu.Unlock()
	})
	gsS.RegisterRequestorCancelledListener(func(p peer.ID, r graphsync.RequestData) {
		mu.Lock()
		if p == pP && r.ID() == reqID {
			cancelled++
		}
		mu.Unlock()
	})
	gsS.RegisterNetworkErrorListener(func(p peer.ID, r graphsync.RequestData, err error) {
		mu.Lock()
		if p == pP && r.ID() == reqID {
			neterr++
		}
		mu.Unlock()
	})
	wedged := false
	barrier := func() {
		if wedged {
			return
		}
		done := make(chan struct{})
		go func() { _ = gsS.PeerState(pP); close(done) }()
		select {
		case <-done:
		case <-time.After(3 * time.Second):
			wedged = true
		}
	}
	sendFrom := func(ep *verifnet.Endpoint, m gsmsg.GraphSyncMessage) {
		_ = ep.SendMessage(ctx, pS, m)
		for i := 0; i < 4000 && net.InFlight() > 0; i++ {
			time.Sleep(50 * time.Microsecond)
		}
		barrier()
	}
	reqMsg := func(r gsmsg.GraphSyncRequest) gsmsg.GraphSyncMessage {
		return gsmsg.NewMessage(map[graphsync.RequestID]gsmsg.GraphSyncRequest{r.ID(): r}, nil, nil)
	}
	// ---- holding the manager's loop: everything posted while it is held queues up in its mailbox, in posting order
	var loopHeld chan struct{}
	var pendingCalls sync.WaitGroup
	holdLoop := func() bool {
		_ = epX.SendMessage(ctx, pS, reqMsg(gsmsg.NewRequest(graphsync.NewRequestID(), dq.Root, sel, graphsync.Priority(1))))
		select {
		case loopHeld = <-holdArrived:
			return true
		case <-time.After(2 * time.Second):
			return false
		}
	}
	secondHold := false
	unholdLoop := func() {
		if loopHeld != nil {
			close(loopHeld)
			loopHeld = nil
			if secondHold {
				secondHold = false
				select {
				case second := <-holdArrived:
					time.Sleep(5 * time.Millisecond)
					close(second)
				case <-time.After(2 * time.Second):
				}
			}
			pendingCalls.Wait()
			barrier()
		}
	}
	post := func(ep *verifnet.Endpoint, m gsmsg.GraphSyncMessage) {
		if loopHeld == nil {
			sendFrom(ep, m)
			return
		}
		_ = ep.SendMessage(ctx, pS, m)
		for i := 0; i < 4000 && net.InFlight() > 0; i++ {
			time.Sleep(50 * time.Microsecond)
		}
		time.Sleep(2 * time.Millisecond)
	}
	call := func(f func(context.Context, graphsync.RequestID) error) {
		do := func() {
			cctx, cc := context.WithTimeout(ctx, 2*time.Second)
			_ = f(cctx, reqID)
			cc()
		}
		if loopHeld == nil {
			do()
			return
		}
		pendingCalls.Add(1)
		go func() { defer pendingCalls.Done(); do() }()
		time.Sleep(2 * time.Millisecond)
	}
	// ---- driver
	var held *arrival
	var heldSend chan verifnet.Outcome
	release := func(dec string) {
		if held != nil {
			if heldSend == nil && len(sends) == 0 {
				senderCaughtUp() // what was queued up to this point goes out as its own message, as in the model
			}
			held.reply <- dec
			held = nil
		}
	}
	passGates := func(dur time.Duration) {
		quiet := time.NewTimer(dur)
		defer quiet.Stop()
		for {
			select {
			case arr := <-gates:
				arr.reply <- "ok"
				quiet.Reset(dur)
			case <-quiet.C:
				return
			}
		}
	}
	waitGate := func(kind string) bool {
		if held != nil && held.kind == kind {
			return true
		}
		release("ok")
		deadline := time.After(500 * time.Millisecond)
		for {
			select {
			case arr := <-gates:
				if arr.kind == kind {
					held = &arr
					return true
				}
				arr.reply <- "ok"
			case <-deadline:
				return false
			}
		}
	}
	waitSend := func(dur time.Duration) bool {
		if heldSend != nil {
			return true
		}
		select {
		case s := <-sends:
			heldSend = s
			return true
		case <-time.After(dur):
			return false
		}
	}
	for i, e := range c.Script {
		if wedged {
			break
		}
		switch e.At {
		case "load":
			if !waitGate("load") {
				obs.Desync = fmt.Sprintf("event %d: executor never reached the load of a block", i)
			}
		case "hook":
			if !waitGate("hook") {
				obs.Desync = fmt.Sprintf("event %d: block hook never called", i)
			}
		case "popped":
		case "updhook":
			if !waitGate("updhook") {
				obs.Desync = fmt.Sprintf("event %d: the executor never ran the update hook", i)
			}
		case "finishing":
			if !waitGate("finishing") {
				obs.Desync = fmt.Sprintf("event %d: the worker never reached the end of its task", i)
			}
		default:
			release("ok")
			passGates(5 * time.Millisecond)
			barrier()
		}
		if obs.Desync != "" {
			break
		}
		// the events that follow at "popped" must sit in the mailbox in front of the worker's start message:
		// hold the loop before the event that queues the task
		if i+1 < len(c.Script) && c.Script[i+1].At == "popped" && c.Script[i+1].Ev != "start" && e.At != "popped" {
			if !holdLoop() {
				obs.Desync = fmt.Sprintf("event %d: could not hold the manager's loop", i)
				break
			}
		}
		switch e.Ev {
		case "new":
			mu.Lock()
			newDecision = e.A
			mu.Unlock()
			post(epP, reqMsg(gsmsg.NewRequest(reqID, d.Root, sel, graphsync.Priority(1))))
		case "cancel":
			ep := epP
			if e.A == "Q" {
				ep = epQ
			}
			post(ep, reqMsg(gsmsg.NewCancelRequest(reqID)))
		case "qnew":
			post(epQ, reqMsg(gsmsg.NewRequest(reqID, dq.Root, sel, graphsync.Priority(1))))
		case "cmdcancel":
			call(gsS.Cancel)
			if loopHeld == nil {
				barrier()
			}
		case "pause":
			call(gsS.Pause)
		case "unpause":
			call(func(c context.Context, id graphsync.RequestID) error { return gsS.Unpause(c, id) })
		case "start":
			unholdLoop()
		}
		// second hold, posted right behind the event that makes the task pending: while the loop sits in it the worker
		// pops the task and posts its start message, which lands behind everything the script posts at "popped"
		if loopHeld != nil && e.At != "popped" {
			_ = epX.SendMessage(ctx, pS, reqMsg(gsmsg.NewRequest(graphsync.NewRequestID(), dq.Root, sel, graphsync.Priority(1))))
			for j := 0; j < 4000 && net.InFlight() > 0; j++ {
				time.Sleep(50 * time.Microsecond)
			}
			time.Sleep(2 * time.Millisecond)
			secondHold = true
		}
		switch e.Ev {
		case "update":
			who, dec := e.A[:1], e.A[2:]
			ep := epP
			if who == "Q" {
				ep = epQ
			}
			if who == "P" && dec != "-" {
				mu.Lock()
				loopDecision = dec
				mu.Unlock()
			}
			post(ep, reqMsg(gsmsg.NewUpdateRequest(reqID, graphsync.ExtensionData{Name: graphsync.ExtensionName("verif/update"), Data: basicnode.NewString("u")})))
			mu.Lock()
			loopDecision = ""
			mu.Unlock()
		case "updhook":
			release(e.A)
		case "go", "finish":
			release("ok")
			if e.Ev == "finish" {
				barrier()
			}
		case "hook":
			release(e.A)
		case "sendok", "sendfail":
			if waitSend(150 * time.Millisecond) {
				if e.Ev == "sendok" {
					heldSend <- verifnet.Deliver
				} else {
					if c.NoReopen {
						net.SetConnectError(pS, pP, errors.New("verif: peer cannot be reached"))
					}
					heldSend <- verifnet.Fail
				}
				heldSend = nil
				if e.Ev == "sendfail" {
					time.Sleep(115 * time.Millisecond)
					if c.NoReopen {
						time.Sleep(30 * time.Millisecond)
						net.SetConnectError(pS, pP, nil)
					}
				} else {
					time.Sleep(500 * time.Microsecond)
				}
				barrier()
			} // else: the real queue merged this message with another one: nothing to decide
		}
	}
	// ---- run out: proviso of C05 (a paused response is eventually unpaused), all sends succeed
	mu.Lock()
	auto = true
	mu.Unlock()
	unholdLoop()
	release("ok")
	if heldSend != nil {
		heldSend <- verifnet.Deliver
		heldSend = nil
	}
	go func() {
		for {
			select {
			case arr := <-gates:
				arr.reply <- "ok"
			case s := <-sends:
				s <- verifnet.Deliver
			case <-ctx.Done():
				return
			}
		}
	}()
	last, stableSince := "", time.Now()
	for start := time.Now(); time.Since(start) < 3*time.Second && !wedged; {
		time.Sleep(3 * time.Millisecond)
		barrier()
		if wedged {
			break
		}
		ps := gsS.PeerState(pP).IncomingState
		if st, ok := ps.RequestStates[reqID]; ok && st == graphsync.Paused {
			cctx, cc := context.WithTimeout(ctx, time.Second)
			_ = gsS.Unpause(cctx, reqID)
			cc()
		}
		mu.Lock()
		s := fmt.Sprint(len(completed), cancelled, neterr, len(wireP), len(net.Log()))
		mu.Unlock()
		if st, ok := ps.RequestStates[reqID]; ok {
			s += st.String()
		}
		if s != last {
			last, stableSince = s, time.Now()
		} else if time.Since(stableSince) > 130*time.Millisecond {
			break
		}
	}
	// a fresh request from P must still get served (per-peer limit 1: a leaked work slot starves it)
	if !wedged {
		mu.Lock()
		newDecision = "accept"
		mu.Unlock()
		_ = epP.SendMessage(ctx, pS, reqMsg(gsmsg.NewRequest(followID, dq.Root, sel, graphsync.Priority(1))))
		for start := time.Now(); time.Since(start) < 1500*time.Millisecond; {
			mu.Lock()
			f := followUp
			mu.Unlock()
			if f != "" {
				break
			}
			time.Sleep(time.Millisecond)
		}
		barrier()
	}
	obs.Wedged = wedged
	obs.State, obs.Task = "gone", "none"
	if !wedged {
		// the follow-up request's worker may still be on its way to reporting its task finished (its completed listener fires
		// when the final message is sent): the snapshot is taken once the follow-up has left the task queue
		for t := time.Now(); time.Since(t) < time.Second; time.Sleep(2 * time.Millisecond) {
			tq := gsS.PeerState(pP).IncomingState.TaskQueueState
			busy := false
			for _, id := range append(append([]graphsync.RequestID{}, tq.Active...), tq.Pending...) {
				if id == followID {
					busy = true
				}
			}
			if !busy {
				break
			}
		}
		ps := gsS.PeerState(pP).IncomingState
		if st, ok := ps.RequestStates[reqID]; ok {
			obs.State = st.String()
		}
		for _, id := range ps.TaskQueueState.Active {
			if id == reqID {
				obs.Task = "active"
			}
		}
		for _, id := range ps.TaskQueueState.Pending {
			if id == reqID {
				obs.Task = "pending"
			}
		}
		for _, ds := range ps.Diagnostics() {
			obs.Diag = append(obs.Diag, ds...)
		}
		// (a completed listener fires when the final message is sent, which can be before the worker has reported its task
		//  finished: give the queue's counters the time to reach their resting values)
		st := gsS.Stats()
		for t := time.Now(); (st.IncomingRequests.Active != 0 || st.IncomingRequests.Pending != 0) && time.Since(t) < time.Second; time.Sleep(2 * time.Millisecond) {
			st = gsS.Stats()
		}
		obs.ActiveStats, obs.PendingStats, obs.AllocTotal = st.IncomingRequests.Active, st.IncomingRequests.Pending, st.OutgoingResponses.TotalAllocatedAllPeers
	}
	mu.Lock()
	obs.Completed = append([]string{}, completed...)
	obs.QCompleted = append([]string{}, qCompleted...)
	obs.Cancelled, obs.NetErr = cancelled, neterr
	obs.FollowUp = followUp
	obs.WireP = append([]string{}, wireP...)
	obs.BlocksToP, obs.QWire = blocksToP, qWire
	mu.Unlock()
	tag := reqID.Tag()
	for _, k := range epS.Conn.Protected() {
		if k == string(pP)+"/"+tag {
			obs.Protected = append(obs.Protected, "P")
		}
	}
	for _, cc := range epS.Conn.Calls {
		if cc.Peer == pP && cc.Tag == tag {
			if cc.Protect {
				obs.ProtectOps = append(obs.ProtectOps, "protect")
			} else {
				obs.ProtectOps = append(obs.ProtectOps, "unprotect")
			}
		}
	}
	sort.Strings(obs.Diag)
	for _, p := range []*[]string{&obs.Completed, &obs.QCompleted, &obs.WireP, &obs.Protected, &obs.ProtectOps, &obs.Diag} {
		if *p == nil {
			*p = []string{}
		}
	}
	return obs
}

func respRun(args []string) error {
	fs := flag.NewFlagSet("resp-run", flag.ExitOnError)
	in := fs.String("in", "", "")
	out := fs.String("out", "", "")
	par := fs.Int("par", runtime.NumCPU(), "")
	fs.Parse(args)
	f, err := os.Open(*in)
	if err != nil {
		return err
	}
	defer f.Close()
	var cases []respCase
	sc := bufio.NewScanner(f)
	sc.Buffer(make([]byte, 1<<20), 1<<26)
	for sc.Scan() {
		var c respCase
		if err := json.Unmarshal(sc.Bytes(), &c); err != nil {
			return err
		}
		cases = append(cases, c)
	}
	results := make([]map[string]any, len(cases))
	var wg sync.WaitGroup
	sem := make(chan struct{}, *par)
	for i := range cases {
		wg.Add(1)
		sem <- struct{}{}
		go func(i int) {
			defer wg.Done()
			defer func() { <-sem }()
			results[i] = map[string]any{"case": cases[i], "obs": runRespCase(cases[i])}
		}(i)
	}
	wg.Wait()
	w, err := os.Create(*out)
	if err != nil {
		return err
	}
	defer w.Close()
	bw := bufio.NewWriter(w)
	defer bw.Flush()
	enc := json.NewEncoder(bw)
	for _, r := range results {
		enc.Encode(r)
	}
	return nil
}
