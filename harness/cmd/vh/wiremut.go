package main

import (
	"bufio"
	"bytes"
	"context"
	"encoding/binary"
	"encoding/json"
	"flag"
	"fmt"
	"io"
	"os"
	"sync"
	"time"

	"github.com/ipfs/go-cid"
	"github.com/ipfs/go-graphsync"
	gsmsg "github.com/ipfs/go-graphsync/message"
	gsmsgv2 "github.com/ipfs/go-graphsync/message/v2"
	gsnet "github.com/ipfs/go-graphsync/network"
	"github.com/ipld/go-ipld-prime/codec/dagcbor"
	"github.com/ipld/go-ipld-prime/datamodel"
	"github.com/ipld/go-ipld-prime/fluent"
	cidlink "github.com/ipld/go-ipld-prime/linking/cid"
	"github.com/ipld/go-ipld-prime/node/basicnode"
	p2pnet "github.com/libp2p/go-libp2p/core/network"
	"github.com/libp2p/go-libp2p/core/peer"
	mocknet "github.com/libp2p/go-libp2p/p2p/net/mock"
)

func init() { register("wire-mut", wireMut) }

// generic tree <-> ipld node
func toAny(n datamodel.Node) any {
	switch n.Kind() {
	case datamodel.Kind_Map:
		m := map[string]any{}
		var keys []string
		it := n.MapIterator()
		for !it.Done() {
			k, v, _ := it.Next()
			ks, _ := k.AsString()
			m[ks] = toAny(v)
			keys = append(keys, ks)
		}
		m["\x00keys"] = keys
		return m
	case datamodel.Kind_List:
		var l []any
		it := n.ListIterator()
		for !it.Done() {
			_, v, _ := it.Next()
			l = append(l, toAny(v))
		}
		return l
	case datamodel.Kind_Null:
		return nil
	case datamodel.Kind_Bool:
		b, _ := n.AsBool()
		return b
	case datamodel.Kind_Int:
		i, _ := n.AsInt()
		return i
	case datamodel.Kind_String:
		s, _ := n.AsString()
		return s
	case datamodel.Kind_Bytes:
		b, _ := n.AsBytes()
		return b
	case datamodel.Kind_Link:
		l, _ := n.AsLink()
		return l
	case datamodel.Kind_Float:
		f, _ := n.AsFloat()
		return f
	}
	return nil
}

func fromAny(v any, na datamodel.NodeAssembler) {
	switch x := v.(type) {
	case map[string]any:
		keys, _ := x["\x00keys"].([]string)
		seen := map[string]bool{}
		var all []string
		for _, k := range keys {
			if _, ok := x[k]; ok {
				all = append(all, k)
				seen[k] = true
			}
		}
		for k := range x {
			if k != "\x00keys" && !seen[k] {
				all = append(all, k)
			}
		}
		ma, _ := na.BeginMap(int64(len(all)))
		for _, k := range all {
			ma.AssembleKey().AssignString(k)
			fromAny(x[k], ma.AssembleValue())
		}
		ma.Finish()
	case []any:
		la, _ := na.BeginList(int64(len(x)))
		for _, e := range x {
			fromAny(e, la.AssembleValue())
		}
		la.Finish()
	case nil:
		na.AssignNull()
	case bool:
		na.AssignBool(x)
	case int64:
		na.AssignInt(x)
	case int:
		na.AssignInt(int64(x))
	case string:
		na.AssignString(x)
	case []byte:
		na.AssignBytes(x)
	case datamodel.Link:
		na.AssignLink(x)
	case float64:
		na.AssignFloat(x)
	default:
		panic(fmt.Sprintf("fromAny: %T", v))
	}
}

func frame(payload []byte) []byte {
	lbuf := make([]byte, binary.MaxVarintLen64)
	n := binary.PutUvarint(lbuf, uint64(len(payload)))
	return append(append([]byte{}, lbuf[:n]...), payload...)
}

func payloadOf(m gsmsg.GraphSyncMessage) []byte {
	var buf bytes.Buffer
	if err := gsmsgv2.NewMessageHandler().ToNet(peer.ID("p"), m, &buf); err != nil {
		panic(err)
	}
	b := buf.Bytes()
	_, n := binary.Uvarint(b)
	return b[n:]
}

type wireCase struct {
	ID   int    `json:"id"`
	Kind string `json:"kind"`
	Base string `json:"base"` // req | rsp
	Pos  int    `json:"pos"`  // for positional kinds
	Val  int    `json:"val"`
}

func baseMsg(base string) gsmsg.GraphSyncMessage {
	if base == "req" {
		return buildMsg(absMsg{Reqs: []absReq{{ID: 1, Type: "New", Prio: "1", Root: "v1-dagcbor", Sel: "all-recursive", Ext: []absExt{{"app/x", "string"}}}}})
	}
	return buildMsg(absMsg{Resps: []absResp{{ID: 1, Status: 14, Md: []absMd{{"v1-raw", "Present"}, {"v1-dagcbor", "Missing"}}}}, Blocks: []string{"b-raw"}})
}

// mutated returns the bytes to put on the stream for a case and whether the mutation applied to this base.
func mutated(c wireCase) ([]byte, bool) {
	valid := payloadOf(baseMsg(c.Base))
	switch c.Kind {
	case "valid":
		return frame(valid), true
	case "bad-varint":
		return bytes.Repeat([]byte{0xff}, 11), true
	case "zero-length":
		return []byte{0x00}, true
	case "length-over-max":
		lbuf := make([]byte, binary.MaxVarintLen64)
		n := binary.PutUvarint(lbuf, uint64(p2pnet.MessageSizeMax+1))
		return append(lbuf[:n], valid...), true
	case "truncated-body":
		f := frame(valid)
		return f[:len(f)-5], true
	case "truncated-inner-cbor":
		return frame(valid[:len(valid)-4]), true
	case "inner-cut": // correctly framed, inner DAG-CBOR cut after Pos bytes
		if c.Pos >= len(valid) {
			return nil, false
		}
		return frame(valid[:c.Pos]), true
	case "frame-cut": // the stream ends after Pos bytes of the framed message
		f := frame(valid)
		if c.Pos >= len(f) {
			return nil, false
		}
		return f[:c.Pos], true
	case "byte-set": // one byte of the inner encoding overwritten
		if c.Pos >= len(valid) || valid[c.Pos] == byte(c.Val) {
			return nil, false
		}
		v := append([]byte{}, valid...)
		v[c.Pos] = byte(c.Val)
		return frame(v), true
	case "length-one-too-short":
		lbuf := make([]byte, binary.MaxVarintLen64)
		n := binary.PutUvarint(lbuf, uint64(len(valid)-1))
		return append(lbuf[:n], valid...), true
	case "length-one-too-long":
		lbuf := make([]byte, binary.MaxVarintLen64)
		n := binary.PutUvarint(lbuf, uint64(len(valid)+1))
		return append(lbuf[:n], valid...), true
	case "trailing-garbage-frame":
		return append(frame(valid), frame([]byte{0xde, 0xad, 0xbe, 0xef})...), true
	}
	// schema-level: decode, mutate, re-encode
	nb := basicnode.Prototype.Any.NewBuilder()
	if err := dagcbor.Decode(nb, bytes.NewReader(valid)); err != nil {
		panic(err)
	}
	root := toAny(nb.Build()).(map[string]any)
	gs2 := root["gs2"].(map[string]any)
	var req, rsp map[string]any
	var blk []any
	if l, ok := gs2["req"].([]any); ok {
		req = l[0].(map[string]any)
	}
	if l, ok := gs2["rsp"].([]any); ok {
		rsp = l[0].(map[string]any)
	}
	if l, ok := gs2["blk"].([]any); ok {
		blk = l[0].([]any)
	}
	idKey, part := "id", req
	if c.Base == "rsp" {
		idKey, part = "reqid", rsp
	}
	var out any = root
	ok := true
	need := func(m map[string]any) bool { return m != nil }
	switch c.Kind {
	case "id-len-0":
		part[idKey] = []byte{}
	case "id-len-15":
		part[idKey] = bytes.Repeat([]byte{7}, 15)
	case "id-len-17":
		part[idKey] = bytes.Repeat([]byte{7}, 17)
	case "id-len-32":
		part[idKey] = bytes.Repeat([]byte{7}, 32)
	case "wrong-kind-id":
		part[idKey] = "not-bytes"
	case "missing-id":
		delete(part, idKey)
	case "extra-key":
		part["zzz"] = int64(1)
	case "wrong-kind-root":
		if ok = need(req); ok {
			req["root"] = "a string"
		}
	case "root-not-link":
		if ok = need(req); ok {
			req["root"] = int64(5)
		}
	case "wrong-kind-type":
		if ok = need(req); ok {
			req["type"] = int64(5)
		}
	case "unknown-request-type":
		if ok = need(req); ok {
			req["type"] = "z"
		}
	case "missing-type":
		if ok = need(req); ok {
			delete(req, "type")
		}
	case "priority-string":
		if ok = need(req); ok {
			req["pri"] = "high"
		}
	case "unknown-status":
		if ok = need(rsp); ok {
			rsp["stat"] = int64(99)
		}
	case "missing-status":
		if ok = need(rsp); ok {
			delete(rsp, "stat")
		}
	case "unknown-link-action":
		if ok = need(rsp); ok {
			rsp["meta"].([]any)[0].([]any)[1] = "z"
		}
	case "wrong-kind-metadata":
		if ok = need(rsp); ok {
			rsp["meta"] = "x"
		}
	case "bad-cid-prefix":
		if ok = blk != nil; ok {
			blk[0] = []byte{0xff, 0xff, 0xff}
		}
	case "truncated-cid-prefix":
		if ok = blk != nil; ok {
			blk[0] = blk[0].([]byte)[:2]
		}
	case "unknown-multihash":
		if ok = blk != nil; ok {
			blk[0] = []byte{0x01, 0x55, 0x99, 0x99, 0x03, 0x20} // cidv1, raw, unknown hash code, length 32
		}
	case "block-data-int":
		if ok = blk != nil; ok {
			blk[1] = int64(5)
		}
	case "wrong-kind-blocks":
		gs2["blk"] = "x"
	case "wrong-kind-message":
		out = []any{"gs2"}
	case "no-gs2":
		out = map[string]any{"gs3": gs2}
	default:
		return nil, false
	}
	if !ok {
		return nil, false
	}
	nb2 := basicnode.Prototype.Any.NewBuilder()
	fromAny(out, nb2)
	var buf bytes.Buffer
	if err := dagcbor.Encode(nb2.Build(), &buf); err != nil {
		panic(err)
	}
	return frame(buf.Bytes()), true
}

type mutRecv struct {
	mu   sync.Mutex
	msgs []gsmsg.GraphSyncMessage
	errs []error
	ch   chan struct{}
}

func (r *mutRecv) ReceiveMessage(ctx context.Context, sender peer.ID, m gsmsg.GraphSyncMessage) {
	r.mu.Lock()
	r.msgs = append(r.msgs, m)
	r.mu.Unlock()
	select {
	case r.ch <- struct{}{}:
	default:
	}
}
func (r *mutRecv) ReceiveError(p peer.ID, err error) {
	r.mu.Lock()
	r.errs = append(r.errs, err)
	r.mu.Unlock()
	select {
	case r.ch <- struct{}{}:
	default:
	}
}
func (r *mutRecv) Connected(p peer.ID)    {}
func (r *mutRecv) Disconnected(p peer.ID) {}

func wireMut(args []string) error {
	fs := flag.NewFlagSet("wire-mut", flag.ExitOnError)
	in := fs.String("in", "", "")
	out := fs.String("out", "", "")
	progress := fs.String("progress", "", "file receiving the id of the case being processed")
	fs.Parse(args)
	initWire()
	f, err := os.Open(*in)
	if err != nil {
		return err
	}
	defer f.Close()
	var cases []wireCase
	sc := bufio.NewScanner(f)
	for sc.Scan() {
		var c wireCase
		if err := json.Unmarshal(sc.Bytes(), &c); err != nil {
			return err
		}
		cases = append(cases, c)
	}
	ctx, cancel := context.WithCancel(context.Background())
	defer cancel()
	mn := mocknet.New()
	h1, err := mn.GenPeer()
	if err != nil {
		return err
	}
	h2, err := mn.GenPeer()
	if err != nil {
		return err
	}
	if err := mn.LinkAll(); err != nil {
		return err
	}
	if err := mn.ConnectAllButSelf(); err != nil {
		return err
	}
	recv := &mutRecv{ch: make(chan struct{}, 64)}
	n2 := gsnet.NewFromLibp2pHost(h2)
	n2.SetDelegate(recv)
	w, err := os.Create(*out)
	if err != nil {
		return err
	}
	defer w.Close()
	enc := json.NewEncoder(w)
	control := frame(payloadOf(buildMsg(absMsg{Reqs: []absReq{{ID: 3, Type: "Cancel", Prio: "0"}}})))
	waitEvent := func(d time.Duration) bool {
		select {
		case <-recv.ch:
			return true
		case <-time.After(d):
			return false
		}
	}
	for _, c := range cases {
		if *progress != "" {
			os.WriteFile(*progress, []byte(fmt.Sprint(c.ID)), 0644)
		}
		data, applies := mutated(c)
		if !applies {
			enc.Encode(map[string]any{"id": c.ID, "kind": c.Kind, "base": c.Base, "pos": c.Pos, "val": c.Val, "skipped": true})
			continue
		}
		recv.mu.Lock()
		recv.msgs, recv.errs = nil, nil
		recv.mu.Unlock()
		for len(recv.ch) > 0 {
			<-recv.ch
		}
		s, err := h1.NewStream(ctx, h2.ID(), gsnet.ProtocolGraphsync_2_0_0)
		if err != nil {
			return err
		}
		s.Write(data)
		s.CloseWrite()
		waitEvent(2 * time.Second)
		time.Sleep(2 * time.Millisecond)
		// did the handler reset the stream?
		s.SetReadDeadline(time.Now().Add(500 * time.Millisecond))
		_, rerr := io.ReadAll(s)
		reset := rerr != nil && rerr != io.EOF
		s.Reset()
		recv.mu.Lock()
		nm, ne := len(recv.msgs), len(recv.errs)
		outcome := "none"
		selfCert, idsOK := true, true
		errText := ""
		if ne > 0 {
			outcome = "error"
			errText = recv.errs[0].Error()
		} else if nm > 0 {
			outcome = "delivered"
		}
		for _, m := range recv.msgs {
			for _, b := range m.Blocks() {
				c2, err := b.Cid().Prefix().Sum(b.RawData())
				if err != nil || !c2.Equals(b.Cid()) {
					selfCert = false
				}
			}
			for _, r := range m.Requests() {
				if len(r.ID().Bytes()) != 16 {
					idsOK = false
				}
			}
			for _, r := range m.Responses() {
				if len(r.RequestID().Bytes()) != 16 {
					idsOK = false
				}
			}
		}
		recv.msgs, recv.errs = nil, nil
		recv.mu.Unlock()
		for len(recv.ch) > 0 {
			<-recv.ch
		}
		// the node must still serve a fresh stream
		s2, err := h1.NewStream(ctx, h2.ID(), gsnet.ProtocolGraphsync_2_0_0)
		served := false
		if err == nil {
			s2.Write(control)
			s2.CloseWrite()
			if waitEvent(2 * time.Second) {
				recv.mu.Lock()
				for _, m := range recv.msgs {
					for _, r := range m.Requests() {
						if r.ID() == wireIDs[3] {
							served = true
						}
					}
				}
				recv.mu.Unlock()
			}
			s2.Reset()
		}
		enc.Encode(map[string]any{"id": c.ID, "kind": c.Kind, "base": c.Base, "pos": c.Pos, "val": c.Val, "skipped": false, "obs": map[string]any{
			"crashed": false, "nextStreamServed": served, "outcome": outcome, "receiveError": ne > 0, "reset": reset,
			"blocksSelfCertified": selfCert, "idsWellFormed": idsOK, "delivered": nm, "errText": errText}})
	}
	return nil
}

var _ = cid.Undef
var _ = cidlink.Link{}
var _ = fluent.MustBuildMap
var _ graphsync.RequestID
