package main

import (
	"context"
	"encoding/json"
	"flag"
	"fmt"
	"os"

	"github.com/ipfs/go-cid"
	"github.com/ipfs/go-graphsync"
	"github.com/ipfs/go-graphsync/messagequeue"
	"github.com/ipfs/go-graphsync/responsemanager/responseassembler"
	cidlink "github.com/ipld/go-ipld-prime/linking/cid"
	"github.com/libp2p/go-libp2p/core/peer"
	mh "github.com/multiformats/go-multihash"
)

func init() { register("lt-replay", ltReplay) }

// capturePMH is the PeerMessageHandler handed to the real ResponseAssembler: it runs the build
// callback on a real messagequeue.Builder so that what would go on the wire can be inspected.
type capturePMH struct {
	last *messagequeue.Builder
	size uint64
}

func (c *capturePMH) AllocateAndBuildMessage(p peer.ID, blkSize uint64, fn func(*messagequeue.Builder)) {
	b := messagequeue.NewBuilder(context.Background(), messagequeue.Topic(0))
	fn(b)
	c.last = b
	c.size = blkSize
}

type ltSut struct {
	ra      *responseassembler.ResponseAssembler
	pmh     *capturePMH
	p       peer.ID
	streams map[string]responseassembler.ResponseStream
	ids     map[string]graphsync.RequestID
	blocks  map[string][]byte
	links   map[string]cidlink.Link
}

func rawBlock(name string) ([]byte, cidlink.Link) {
	data := []byte("block-" + name + "-payload")
	h, _ := mh.Sum(data, mh.SHA2_256, -1)
	return data, cidlink.Link{Cid: cid.NewCidV1(cid.Raw, h)}
}

func newLtSut() sut {
	pmh := &capturePMH{}
	s := &ltSut{ra: responseassembler.New(context.Background(), pmh), pmh: pmh, p: peer.ID("peer-P"),
		streams: map[string]responseassembler.ResponseStream{}, ids: map[string]graphsync.RequestID{},
		blocks: map[string][]byte{}, links: map[string]cidlink.Link{}}
	return s
}

func (s *ltSut) Close() {}

func (s *ltSut) stream(r string) responseassembler.ResponseStream {
	st, ok := s.streams[r]
	if !ok {
		id := graphsync.NewRequestID()
		s.ids[r] = id
		st = s.ra.NewStream(context.Background(), s.p, id, nil)
		s.streams[r] = st
	}
	return st
}

func (s *ltSut) link(l string) (cidlink.Link, []byte) {
	if _, ok := s.links[l]; !ok {
		d, lk := rawBlock(l)
		s.links[l], s.blocks[l] = lk, d
	}
	return s.links[l], s.blocks[l]
}

type ltAct struct {
	Op  string `json:"op"`
	R   string `json:"r"`
	K   string `json:"k"`
	L   string `json:"l"`
	Has bool   `json:"has"`
	N   int64  `json:"n"`
}

func (s *ltSut) Apply(raw json.RawMessage, edge map[string]json.RawMessage) (any, error) {
	var a ltAct
	if err := json.Unmarshal(raw, &a); err != nil {
		return nil, err
	}
	st := s.stream(a.R)
	var out map[string]any
	switch a.Op {
	case "dedup":
		st.DedupKey(a.K)
		out = map[string]any{"op": "dedup"}
	case "ignore":
		lk, _ := s.link(a.L)
		st.IgnoreBlocks([]ipldLink{lk})
		out = map[string]any{"op": "ignore"}
	case "skip":
		st.SkipFirstBlocks(a.N)
		out = map[string]any{"op": "skip"}
	case "record":
		lk, data := s.link(a.L)
		if !a.Has {
			data = nil
		}
		var bd graphsync.BlockData
		s.pmh.last = nil
		err := st.Transaction(func(b responseassembler.ResponseBuilder) error {
			bd = b.SendResponse(lk, data)
			return nil
		})
		if err != nil {
			return nil, err
		}
		send := bd.BlockSizeOnWire() > 0
		// what the message would carry must agree with the reported decision
		msg, err := s.pmh.last.Build()
		if err != nil {
			return nil, err
		}
		onWire := false
		for _, blk := range msg.Blocks() {
			if blk.Cid() == lk.Cid {
				onWire = true
			}
		}
		metaOK := false
		for _, r := range msg.Responses() {
			if r.RequestID() == s.ids[a.R] {
				md := r.Metadata()
				md.Iterate(func(c cid.Cid, la graphsync.LinkAction) {
					if c == lk.Cid && ((a.Has && la == graphsync.LinkActionPresent) || (!a.Has && la == graphsync.LinkActionMissing)) {
						metaOK = true
					}
				})
			}
		}
		if onWire != send {
			return nil, fmt.Errorf("BlockSizeOnWire says send=%v but message carries block=%v", send, onWire)
		}
		if !metaOK {
			return nil, fmt.Errorf("link metadata for the visit is absent or has the wrong action")
		}
		wantSize := uint64(0)
		if send {
			wantSize = uint64(len(data))
		}
		if s.pmh.size != wantSize {
			return nil, fmt.Errorf("memory requested for the transaction is %d, data sent is %d", s.pmh.size, wantSize)
		}
		out = map[string]any{"op": "record", "send": send, "index": bd.Index()}
	case "finish":
		var status graphsync.ResponseStatusCode
		err := st.Transaction(func(b responseassembler.ResponseBuilder) error {
			status = b.FinishRequest()
			return nil
		})
		if err != nil {
			return nil, err
		}
		if status != graphsync.RequestCompletedFull && status != graphsync.RequestCompletedPartial {
			return nil, fmt.Errorf("unexpected finish status %d", status)
		}
		out = map[string]any{"op": "finish", "full": status == graphsync.RequestCompletedFull}
	default:
		return nil, fmt.Errorf("unknown op %q", a.Op)
	}
	if edge != nil {
		var wantIdle bool
		json.Unmarshal(edge["idle"], &wantIdle)
		if got := verifTrackerIdle(s.ra, s.p); got != wantIdle {
			return nil, fmt.Errorf("tracking state empty = %v, model says %v", got, wantIdle)
		}
	}
	return out, nil
}

func ltReplay(args []string) error {
	fs := flag.NewFlagSet("lt-replay", flag.ExitOnError)
	edges := fs.String("edges", "", "")
	walks := fs.Int("walks", 0, "")
	depth := fs.Int("depth", 14, "")
	seed := fs.Int64("seed", 1, "")
	fs.Parse(args)
	out, err := replayGraph(*edges, newLtSut, 20, walkOpts{*walks, *depth, *seed})
	if err != nil {
		return err
	}
	return json.NewEncoder(os.Stdout).Encode(out)
}
