package main

import (
	"bufio"
	"context"
	"encoding/json"
	"flag"
	"fmt"
	"os"
	"runtime"
	"strings"
	"sync"
	"time"

	"github.com/ipfs/go-graphsync"
	gsimpl "github.com/ipfs/go-graphsync/impl"
	gsmsg "github.com/ipfs/go-graphsync/message"
	"github.com/ipld/go-ipld-prime/node/basicnode"
	"github.com/libp2p/go-libp2p/core/peer"

	"verifharness/dagreal"
	"verifharness/verifnet"
)

// hol-run: stalled-peer scenarios (HeadOfLineScripts.tla) on a real responder.
// Peer A's link is stalled (every send to A blocks), peer B is healthy.  Two query workers, a per-peer
// memory allowance of about two blocks, requests of four blocks for A and three for B.

func init() { register("hol-run", holRun) }

type holEv struct {
	Ev   string `json:"ev"` // new | cancel | update | unpause
	P    string `json:"p"`
	R    string `json:"r"`
	Kind string `json:"kind"`
	Ext  bool   `json:"ext"`
}
type holCase struct {
	ID     int             `json:"id"`
	Limit  int             `json:"limit"` // per-peer limit, 0 = none
	Script []holEv         `json:"script"`
	Finals json.RawMessage `json:"finals,omitempty"`
}
type holObs struct {
	Unserved       []string          `json:"unserved"` // requests of B that were sent and did not end within the deadline
	Answer         map[string]string `json:"answer"`   // request -> terminal status seen on the wire / "cancelled-by-peer"
	States         map[string]string `json:"states"`   // request -> reported state ("gone" if not listed, "?" if the loop did not answer)
	LoopResponsive bool              `json:"loopResponsive"`
	PendingAllocA  bool              `json:"pendingAllocA"`
	ActiveTasks    uint64            `json:"activeTasks"`
	Desync         string            `json:"desync"`
}

const holDeadline = 2 * time.Second

func runHolCase(c holCase) (obs holObs) {
	ctx, cancelAll := context.WithCancel(context.Background())
	defer cancelAll()
	pad := strings.Repeat("x", 230)
	mkChain := func(label string, k int) *dagreal.DAG {
		t := dagreal.Tree{N: k, Par: make([]int, k+1), Dep: make([]int, k+1), Cid: make([]int, k+1)}
		for i := 1; i <= k; i++ {
			t.Par[i], t.Dep[i], t.Cid[i] = i-1, i-1, 2*i // even labels: all blocks dag-cbor, equal sizes
		}
		d, _ := dagreal.Build(t, label+pad)
		return d
	}
	sel := dagreal.AllSelector(20)
	net := verifnet.New()
	pS, pA, pB := peer.ID("responder-S"), peer.ID("stalled-A"), peer.ID("healthy-B")
	epS, epA, epB := net.Endpoint(ctx, pS), net.Endpoint(ctx, pA), net.Endpoint(ctx, pB)
	epA.SetDelegate(&rawRecv{})
	epB.SetDelegate(&rawRecv{})
	var mu sync.Mutex
	answer := map[graphsync.RequestID]string{}
	net.SetPolicy(func(from, to peer.ID, n int, m gsmsg.GraphSyncMessage) verifnet.Outcome {
		if from == pS && to == pA {
			return verifnet.Stall
		}
		if from == pS && to == pB {
			mu.Lock()
			for _, r := range m.Responses() {
				if r.Status().IsTerminal() {
					answer[r.RequestID()] = statusName(r.Status())
				}
			}
			mu.Unlock()
		}
		return verifnet.Deliver
	})
	dags := map[string]*dagreal.DAG{}
	blocks := dagreal.NewStore(nil)
	for _, name := range []string{"a1", "a2", "a3"} {
		dags[name] = mkChain(fmt.Sprintf("hol%d-%s", c.ID, name), 4)
	}
	for _, name := range []string{"b1", "b2"} {
		dags[name] = mkChain(fmt.Sprintf("hol%d-%s", c.ID, name), 3)
	}
	blockSize := 0
	for _, d := range dags {
		for k, b := range d.Blocks {
			blocks.Put(k, b)
			if len(b) > blockSize {
				blockSize = len(b)
			}
		}
	}
	opts := []gsimpl.Option{gsimpl.MessageSendRetries(1), gsimpl.RejectAllRequestsByDefault(), gsimpl.MaxInProgressIncomingRequests(2),
		gsimpl.MaxMemoryPerPeerResponder(uint64(2*blockSize + blockSize/2)), gsimpl.MaxMemoryResponder(uint64(100 * blockSize)),
		gsimpl.SendMessageTimeout(time.Hour)}
	if c.Limit > 0 {
		opts = append(opts, gsimpl.MaxInProgressIncomingRequestsPerPeer(uint64(c.Limit)))
	}
	gsS := gsimpl.New(ctx, epS, blocks.LinkSystem(), opts...).(*gsimpl.GraphSync)
	extName := graphsync.ExtensionName("verif/hol")
	extData := graphsync.ExtensionData{Name: extName, Data: basicnode.NewBytes([]byte(strings.Repeat("e", blockSize-8)))}
	ids := map[string]graphsync.RequestID{}
	names := map[graphsync.RequestID]string{}
	decide := map[graphsync.RequestID]holEv{}
	gsS.RegisterIncomingRequestHook(func(p peer.ID, r graphsync.RequestData, ha graphsync.IncomingRequestHookActions) {
		mu.Lock()
		e, ok := decide[r.ID()]
		mu.Unlock()
		if !ok {
			return
		}
		if e.Ext {
			ha.SendExtensionData(extData)
		}
		switch e.Kind {
		case "accept":
			ha.ValidateRequest()
		case "pause":
			ha.ValidateRequest()
			ha.PauseResponse()
		}
	})
	gsS.RegisterRequestUpdatedHook(func(p peer.ID, r graphsync.RequestData, u graphsync.RequestData, ha graphsync.RequestUpdatedHookActions) {
		ha.SendExtensionData(extData)
	})
	cancelledByPeer := map[graphsync.RequestID]bool{}
	gsS.RegisterRequestorCancelledListener(func(p peer.ID, r graphsync.RequestData) {
		mu.Lock()
		cancelledByPeer[r.ID()] = true
		mu.Unlock()
	})
	reqMsg := func(r gsmsg.GraphSyncRequest) gsmsg.GraphSyncMessage {
		return gsmsg.NewMessage(map[graphsync.RequestID]gsmsg.GraphSyncRequest{r.ID(): r}, nil, nil)
	}
	ep := func(p string) *verifnet.Endpoint {
		if p == "A" {
			return epA
		}
		return epB
	}
	// settle: nothing observable changes for a while (the manager's loop may be blocked, so it cannot be asked)
	settle := func() {
		last, since := "", time.Now()
		for start := time.Now(); time.Since(start) < 400*time.Millisecond; {
			time.Sleep(2 * time.Millisecond)
			st := gsS.Stats()
			mu.Lock()
			s := fmt.Sprint(len(net.Log()), net.InFlight(), st.OutgoingResponses.TotalAllocatedAllPeers, st.OutgoingResponses.NumPeersWithPendingAllocations, len(answer), len(cancelledByPeer))
			mu.Unlock()
			if s != last {
				last, since = s, time.Now()
			} else if time.Since(since) > 25*time.Millisecond {
				return
			}
		}
	}
	var calls sync.WaitGroup
	var sentB []string
	for i, e := range c.Script {
		switch e.Ev {
		case "new":
			id := graphsync.NewRequestID()
			ids[e.R], names[id] = id, e.R
			mu.Lock()
			decide[id] = e
			mu.Unlock()
			if e.P == "B" {
				sentB = append(sentB, e.R)
			}
			_ = ep(e.P).SendMessage(ctx, pS, reqMsg(gsmsg.NewRequest(id, dags[e.R].Root, sel, graphsync.Priority(1))))
		case "cancel":
			id, ok := ids[e.R]
			if !ok {
				obs.Desync = fmt.Sprintf("event %d: cancel of unknown request", i)
				break
			}
			_ = ep(e.P).SendMessage(ctx, pS, reqMsg(gsmsg.NewCancelRequest(id)))
		case "update":
			id, ok := ids[e.R]
			if !ok {
				obs.Desync = fmt.Sprintf("event %d: update of unknown request", i)
				break
			}
			_ = ep(e.P).SendMessage(ctx, pS, reqMsg(gsmsg.NewUpdateRequest(id, graphsync.ExtensionData{Name: extName, Data: basicnode.NewString("u")})))
		case "unpause":
			id, ok := ids[e.R]
			if !ok {
				obs.Desync = fmt.Sprintf("event %d: unpause of unknown request", i)
				break
			}
			calls.Add(1)
			go func(ext bool) {
				defer calls.Done()
				cctx, cc := context.WithTimeout(ctx, holDeadline+time.Second)
				defer cc()
				if ext {
					_ = gsS.Unpause(cctx, id, extData)
				} else {
					_ = gsS.Unpause(cctx, id)
				}
			}(e.Ext)
		}
		if obs.Desync != "" {
			break
		}
		settle()
	}
	// ---- watchdog: every request of B ends within the deadline (paused ones are unpaused: the proviso)
	done := func(name string) bool {
		mu.Lock()
		defer mu.Unlock()
		id := ids[name]
		_, a := answer[id]
		return a || cancelledByPeer[id]
	}
	deadline := time.Now().Add(holDeadline)
	for time.Now().Before(deadline) {
		all := true
		for _, n := range sentB {
			if !done(n) {
				all = false
			}
		}
		if all {
			break
		}
		time.Sleep(2 * time.Millisecond)
	}
	obs.Answer, obs.States = map[string]string{}, map[string]string{}
	obs.Unserved = []string{}
	for _, n := range sentB {
		if !done(n) {
			obs.Unserved = append(obs.Unserved, n)
		}
	}
	mu.Lock()
	for id, a := range answer {
		obs.Answer[names[id]] = a
	}
	for id := range cancelledByPeer {
		if _, ok := obs.Answer[names[id]]; !ok {
			obs.Answer[names[id]] = "cancelled-by-peer"
		}
	}
	mu.Unlock()
	// is the manager's loop still answering?
	type pst struct{ a, b map[graphsync.RequestID]graphsync.RequestState }
	ch := make(chan pst, 1)
	go func() {
		ch <- pst{gsS.PeerState(pA).IncomingState.RequestStates, gsS.PeerState(pB).IncomingState.RequestStates}
	}()
	select {
	case s := <-ch:
		obs.LoopResponsive = true
		for n, id := range ids {
			st := "gone"
			if v, ok := s.a[id]; ok {
				st = v.String()
			}
			if v, ok := s.b[id]; ok {
				st = v.String()
			}
			obs.States[n] = st
		}
	case <-time.After(time.Second):
		for n := range ids {
			obs.States[n] = "?"
		}
	}
	st := gsS.Stats()
	obs.PendingAllocA = st.OutgoingResponses.NumPeersWithPendingAllocations > 0
	if obs.LoopResponsive {
		obs.ActiveTasks = st.IncomingRequests.Active
	}
	cancelAll()
	return obs
}

func holRun(args []string) error {
	fs := flag.NewFlagSet("hol-run", flag.ExitOnError)
	in := fs.String("in", "", "")
	out := fs.String("out", "", "")
	par := fs.Int("par", runtime.NumCPU(), "")
	fs.Parse(args)
	f, err := os.Open(*in)
	if err != nil {
		return err
	}
	defer f.Close()
	var cases []holCase
	sc := bufio.NewScanner(f)
	sc.Buffer(make([]byte, 1<<20), 1<<26)
	for sc.Scan() {
		var c holCase
		if err := json.Unmarshal(sc.Bytes(), &c); err != nil {
			return err
		}
		cases = append(cases, c)
	}
	results := make([]map[string]any, len(cases))
	var wg sync.WaitGroup
	sem := make(chan struct{}, *par)
	for i := range cases {
		wg.Add(1)
		sem <- struct{}{}
		go func(i int) {
			defer wg.Done()
			defer func() { <-sem }()
			results[i] = map[string]any{"case": cases[i], "obs": runHolCase(cases[i])}
		}(i)
	}
	wg.Wait()
	w, err := os.Create(*out)
	if err != nil {
		return err
	}
	defer w.Close()
	bw := bufio.NewWriter(w)
	defer bw.Flush()
	enc := json.NewEncoder(bw)
	for _, r := range results {
		enc.Encode(r)
	}
	return nil
}
