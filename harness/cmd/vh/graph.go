package main

import (
	"bufio"
	"encoding/json"
	"fmt"
	"math/rand"
	"os"
	"reflect"
)

// Generic B1 binding: replay of a TLC-emitted abstract state graph.  Every line of the edges
// file is {"from": key, "to": key, "act": {...}, "out": {...}, ...}; lines arrive in BFS order
// (tlc -workers 1), so the source state of every edge already has a known path from Init.

type gEdge struct {
	From string          `json:"from"`
	To   string          `json:"to"`
	Act  json.RawMessage `json:"act"`
	Out  json.RawMessage `json:"out"`
	Raw  json.RawMessage `json:"-"`
}

// sut is a fresh instance of the real system for one replay.
type sut interface {
	// Apply performs the action and returns the observable result (compared to the model's "out").
	// extra carries the whole edge for module-specific fields.
	Apply(act json.RawMessage, edge map[string]json.RawMessage) (any, error)
	Close()
}

type gMismatch struct {
	Path []json.RawMessage `json:"path"`
	Act  json.RawMessage   `json:"act"`
	Want json.RawMessage   `json:"want"`
	Got  any               `json:"got"`
	What string            `json:"what"`
}

func normJSON(v any) any {
	b, _ := json.Marshal(v)
	var x any
	json.Unmarshal(b, &x)
	return x
}

// walkOpts adds seeded random walks through the loaded graph (path diversity: the spanning-tree
// replay reaches every transition along one path only, and the implementation may carry hidden
// state that the abstract state does not determine).
type walkOpts struct {
	Walks int
	Depth int
	Seed  int64
}

func replayGraph(file string, mk func() sut, maxMismatch int, wo ...walkOpts) (map[string]any, error) {
	f, err := os.Open(file)
	if err != nil {
		return nil, err
	}
	defer f.Close()
	sc := bufio.NewScanner(f)
	sc.Buffer(make([]byte, 1<<20), 1<<28)
	type pathNode struct {
		parent *pathNode
		act    json.RawMessage
		depth  int
	}
	paths := map[string]*pathNode{}
	first := true
	var mism []gMismatch
	nEdges, nStates := 0, 0
	var samples []any
	type adjEdgeF struct {
		to       string
		act, out json.RawMessage
		full     map[string]json.RawMessage
	}
	adj := map[string][]adjEdgeF{}
	initKey := ""
	unwind := func(n *pathNode) []json.RawMessage {
		res := make([]json.RawMessage, n.depth)
		for x := n; x != nil && x.depth > 0; x = x.parent {
			res[x.depth-1] = x.act
		}
		return res
	}
	for sc.Scan() {
		line := append([]byte(nil), sc.Bytes()...)
		var e gEdge
		if err := json.Unmarshal(line, &e); err != nil {
			return nil, fmt.Errorf("bad edge: %v", err)
		}
		var full map[string]json.RawMessage
		json.Unmarshal(line, &full)
		if len(wo) > 0 {
			adj[e.From] = append(adj[e.From], adjEdgeF{e.To, e.Act, e.Out, full})
		}
		if first {
			initKey = e.From
			paths[e.From] = &pathNode{}
			first = false
			nStates++
		}
		pn, ok := paths[e.From]
		if !ok {
			return nil, fmt.Errorf("edge from unknown state (edges not in BFS order?): %s", e.From)
		}
		path := unwind(pn)
		s := mk()
		var perr error
		for _, a := range path {
			if _, err := s.Apply(a, nil); err != nil {
				perr = err
				break
			}
		}
		what := ""
		var got any
		if perr != nil {
			what = "error while driving to source state: " + perr.Error()
		} else {
			got, err = s.Apply(e.Act, full)
			if err != nil {
				what = "error applying action: " + err.Error()
			} else {
				var want any
				json.Unmarshal(e.Out, &want)
				if !reflect.DeepEqual(normJSON(got), want) {
					what = "observable result differs from the model"
				}
			}
		}
		s.Close()
		if what != "" && len(mism) < maxMismatch {
			mism = append(mism, gMismatch{path, e.Act, e.Out, got, what})
		}
		nEdges++
		if len(samples) < 2 && pn.depth >= 4 {
			samples = append(samples, map[string]any{"path": path, "act": e.Act, "out": e.Out})
		}
		if _, seen := paths[e.To]; !seen {
			paths[e.To] = &pathNode{pn, e.Act, pn.depth + 1}
			nStates++
		}
	}
	nWalks, nWalkSteps := 0, 0
	if len(wo) > 0 && wo[0].Walks > 0 {
		rng := rand.New(rand.NewSource(wo[0].Seed))
		for w := 0; w < wo[0].Walks && len(mism) < maxMismatch; w++ {
			s := mk()
			cur := initKey
			var path []json.RawMessage
			for d := 0; d < wo[0].Depth; d++ {
				outs := adj[cur]
				if len(outs) == 0 {
					break
				}
				e := outs[rng.Intn(len(outs))]
				got, err := s.Apply(e.act, e.full)
				what := ""
				if err != nil {
					what = "error applying action: " + err.Error()
				} else {
					var want any
					json.Unmarshal(e.out, &want)
					if !reflect.DeepEqual(normJSON(got), want) {
						what = "observable result differs from the model"
					}
				}
				nWalkSteps++
				if what != "" {
					mism = append(mism, gMismatch{append([]json.RawMessage(nil), path...), e.act, e.out, got, what + " (random walk)"})
					break
				}
				path = append(path, e.act)
				cur = e.to
			}
			s.Close()
			nWalks++
		}
	}
	return map[string]any{"edges": nEdges, "states": nStates, "mismatches": mism, "samples": samples, "walks": nWalks, "walk_steps": nWalkSteps}, nil
}

type adjEdge struct {
	to       string
	act, out json.RawMessage
}

// loadAdj loads a TLC edges file as adjacency lists keyed by source state.
func loadAdj(file string) (map[string][]adjEdge, string, error) {
	f, err := os.Open(file)
	if err != nil {
		return nil, "", err
	}
	defer f.Close()
	sc := bufio.NewScanner(f)
	sc.Buffer(make([]byte, 1<<20), 1<<28)
	adj := map[string][]adjEdge{}
	initKey := ""
	for sc.Scan() {
		var e gEdge
		if err := json.Unmarshal(sc.Bytes(), &e); err != nil {
			return nil, "", err
		}
		if initKey == "" {
			initKey = e.From
		}
		adj[e.From] = append(adj[e.From], adjEdge{e.To, e.Act, e.Out})
	}
	return adj, initKey, nil
}
