package main

import (
	"bufio"
	"context"
	"encoding/json"
	"flag"
	"fmt"
	"io"
	"os"
	"sort"
	"sync"
	"time"

	"github.com/ipfs/go-cid"
	"github.com/ipfs/go-graphsync"
	"github.com/ipfs/go-graphsync/cidset"
	gsimpl "github.com/ipfs/go-graphsync/impl"
	gsmsg "github.com/ipfs/go-graphsync/message"
	"github.com/ipfs/go-graphsync/messagequeue"
	"github.com/ipld/go-ipld-prime"
	"github.com/ipld/go-ipld-prime/datamodel"
	"github.com/ipld/go-ipld-prime/linking"
	cidlink "github.com/ipld/go-ipld-prime/linking/cid"
	"github.com/libp2p/go-libp2p/core/peer"

	"verifharness/dagreal"
	"verifharness/verifnet"
)

// conc-run: scripts of ConcurrentScripts.tla on a real requestor and a real responder.
// Two requests A and B (own root, shared leaves); the script says which request's responder traversal goes on
// (outgoing block hook gate), when the responder's message on the network is delivered (send gate; the sender takes a
// new message only when the harness lets it wake) and when the requestor's stores commit a leaf (commit gate).
// The message queue hook is a package variable: one case at a time per process.

func init() { register("conc-run", concRun) }

type concEv struct {
	Ev string `json:"ev"` // resp | deliver | commit
	R  string `json:"r"`
	C  int    `json:"c"`
}
type concCase struct {
	ID     int             `json:"id"`
	SeqA   []int           `json:"seqA"`
	SeqB   []int           `json:"seqB"`
	KeyA   string          `json:"keyA"`
	IgnA   []int           `json:"ignA"`
	Script []concEv        `json:"script"`
	Final  json.RawMessage `json:"final,omitempty"`
	// PauseA: the responder's request hook pauses A on arrival and A is resumed at once, before the script starts (nothing
	// changes for the model: the request's extensions were taken in when it arrived)
	PauseA bool `json:"pauseA,omitempty"`
}
type concObs struct {
	DA        []int    `json:"dA"` // leaves delivered for A, in order
	DB        []int    `json:"dB"`
	EA        []int    `json:"eA"` // leaves reported missing for A
	EB        []int    `json:"eB"`
	OtherErrs []string `json:"otherErrs"`
	StoreA    []int    `json:"storeA"` // leaves in A's store afterwards
	StoreB    []int    `json:"storeB"`
	Hang      bool     `json:"hang"`
	Desync    string   `json:"desync"`
}

type gateArr struct {
	key     string
	release chan struct{}
}

func runConcCase(c concCase) (obs concObs) {
	ctx, cancelAll := context.WithCancel(context.Background())
	defer cancelAll()
	salt := fmt.Sprintf("conc%d", c.ID)
	mk := func(rootLabel int, leaves []int) *dagreal.DAG {
		n := 1 + len(leaves)
		t := dagreal.Tree{N: n, Par: make([]int, n+1), Dep: make([]int, n+1), Cid: make([]int, n+1)}
		t.Cid[1] = rootLabel
		for i, l := range leaves {
			t.Par[i+2], t.Dep[i+2], t.Cid[i+2] = 1, 1, l
		}
		d, _ := dagreal.Build(t, salt)
		return d
	}
	dA, dB := mk(100, c.SeqA), mk(200, c.SeqB)
	labelOf := func(cc cid.Cid) int {
		if l, ok := dA.LabelOf[cc]; ok {
			return l
		}
		if l, ok := dB.LabelOf[cc]; ok {
			return l
		}
		return -1
	}
	// ---- gates
	var mu sync.Mutex
	scripted := false // false: every gate lets pass (set-up and run-out)
	arrivals := make(chan gateArr, 64)
	dbg := os.Getenv("VERIF_CONC_DEBUG") != ""
	t0 := time.Now()
	trace := func(f string, a ...any) {
		if dbg {
			fmt.Fprintf(os.Stderr, "%7.2fms %s\n", float64(time.Since(t0).Microseconds())/1000, fmt.Sprintf(f, a...))
		}
	}
	gate := func(key string) {
		mu.Lock()
		s := scripted
		mu.Unlock()
		trace("gate %s scripted=%v", key, s)
		if !s {
			return
		}
		a := gateArr{key, make(chan struct{})}
		select {
		case arrivals <- a:
		case <-ctx.Done():
			return
		}
		select {
		case <-a.release:
		case <-ctx.Done():
		}
	}
	pendingGates := map[string][]chan struct{}{}
	drain := func(wait time.Duration) {
		t := time.NewTimer(wait)
		defer t.Stop()
		for {
			select {
			case a := <-arrivals:
				pendingGates[a.key] = append(pendingGates[a.key], a.release)
				if !t.Stop() {
					select {
					case <-t.C:
					default:
					}
				}
				t.Reset(wait)
			case <-t.C:
				return
			}
		}
	}
	waitFor := func(key string, d time.Duration) bool {
		deadline := time.Now().Add(d)
		for len(pendingGates[key]) == 0 {
			left := time.Until(deadline)
			if left <= 0 {
				return false
			}
			select {
			case a := <-arrivals:
				pendingGates[a.key] = append(pendingGates[a.key], a.release)
			case <-time.After(left):
				return false
			}
		}
		return true
	}
	releaseAll := func(key string) int {
		n := len(pendingGates[key])
		for _, ch := range pendingGates[key] {
			close(ch)
		}
		delete(pendingGates, key)
		return n
	}
	// ---- nodes
	net := verifnet.New()
	pR, pS := peer.ID("req-peer-R"), peer.ID("resp-peer-S")
	epR, epS := net.Endpoint(ctx, pR), net.Endpoint(ctx, pS)
	all := map[cid.Cid][]byte{}
	for cc, b := range dA.Blocks {
		all[cc] = b
	}
	for cc, b := range dB.Blocks {
		all[cc] = b
	}
	stS := dagreal.NewStore(all)
	stDef, stAlt := dagreal.NewStore(nil), dagreal.NewStore(nil)
	stOfA := stDef
	if c.KeyA != "" {
		stOfA = stAlt
	}
	for _, l := range c.IgnA {
		cc := dA.ByLabel[l]
		stOfA.Put(cc, dA.Blocks[cc])
	}
	gatedLS := func(st *dagreal.Store) ipld.LinkSystem {
		ls := st.LinkSystem()
		base := ls.StorageWriteOpener
		ls.StorageWriteOpener = func(lc linking.LinkContext) (io.Writer, linking.BlockWriteCommitter, error) {
			w, inner, err := base(lc)
			if err != nil {
				return w, inner, err
			}
			return w, func(l datamodel.Link) error {
				lab := labelOf(l.(cidlink.Link).Cid)
				if lab >= 0 && lab < 100 {
					gate(fmt.Sprintf("commit:%d", lab))
				}
				return inner(l)
			}, nil
		}
		return ls
	}
	gsR := gsimpl.New(ctx, epR, gatedLS(stDef))
	_ = gsR.RegisterPersistenceOption("alt", gatedLS(stAlt))
	// the responder reads each request's blocks through its own link system, so that the read of a leaf (which comes
	// before the responder decides whether to attach the block) can be held per request
	readGated := func(name string) ipld.LinkSystem {
		ls := stS.LinkSystem()
		base := ls.StorageReadOpener
		ls.StorageReadOpener = func(lc linking.LinkContext, l datamodel.Link) (io.Reader, error) {
			lab := labelOf(l.(cidlink.Link).Cid)
			if lab >= 0 && lab < 100 {
				gate("hook:" + name)
			}
			return base(lc, l)
		}
		return ls
	}
	gsS := gsimpl.New(ctx, epS, stS.LinkSystem())
	_ = gsS.RegisterPersistenceOption("forA", readGated("A"))
	_ = gsS.RegisterPersistenceOption("forB", readGated("B"))
	idA, idB := graphsync.NewRequestID(), graphsync.NewRequestID()
	nameOf := func(id graphsync.RequestID) string {
		if id == idA {
			return "A"
		}
		if id == idB {
			return "B"
		}
		return "?"
	}
	gsS.RegisterIncomingRequestHook(func(p peer.ID, r graphsync.RequestData, ha graphsync.IncomingRequestHookActions) {
		ha.ValidateRequest()
		if n := nameOf(r.ID()); n != "?" {
			ha.UsePersistenceOption("for" + n)
			if n == "A" && c.PauseA {
				ha.PauseResponse()
			}
		}
	})
	gsR.RegisterOutgoingRequestHook(func(p peer.ID, r graphsync.RequestData, ha graphsync.OutgoingRequestHookActions) {
		if r.ID() == idA && c.KeyA != "" {
			ha.UsePersistenceOption("alt")
		}
	})
	// the responder's queue towards R: sender wake-ups and builds
	var sq *messagequeue.MessageQueue
	builds, nstart := 0, 0
	mqHookMu.Lock()
	defer func() { messagequeue.VerifHook = nil; mqHookMu.Unlock() }()
	messagequeue.VerifHook = func(q *messagequeue.MessageQueue, event string, topic messagequeue.Topic, ids []graphsync.RequestID) {
		switch event {
		case "start":
			// the requestor's queue (towards S) starts first, with the first request; the second one is the responder's
			mu.Lock()
			nstart++
			if nstart == 2 {
				sq = q
			}
			mu.Unlock()
		case "built":
			mu.Lock()
			if q == sq {
				builds++
			}
			isS := q == sq
			mu.Unlock()
			trace("built topic=%d ids=%d S=%v", topic, len(ids), isS)
		case "wake":
			mu.Lock()
			isS := q == sq
			mu.Unlock()
			trace("wake hook isS=%v", isS)
			if isS {
				gate("wake")
			}
		}
	}
	net.SetPolicy(func(from, to peer.ID, n int, m gsmsg.GraphSyncMessage) verifnet.Outcome {
		if from == pS && to == pR {
			gate("send")
		}
		return verifnet.Deliver
	})
	// ---- requests
	type reqState struct {
		delivered, missing []int
		other              []string
		done               chan struct{}
		nodes              int
	}
	sel := dagreal.AllSelector(10)
	start := func(id graphsync.RequestID, d *dagreal.DAG, exts ...graphsync.ExtensionData) *reqState {
		rs := &reqState{done: make(chan struct{})}
		rctx := context.WithValue(ctx, graphsync.RequestIDContextKey{}, id)
		prog, errs := gsR.Request(rctx, pS, cidlink.Link{Cid: d.Root}, sel, exts...)
		go func() {
			defer close(rs.done)
			seen := map[int]bool{}
			for prog != nil || errs != nil {
				select {
				case p, ok := <-prog:
					if !ok {
						prog = nil
						continue
					}
					mu.Lock()
					rs.nodes++
					if p.LastBlock.Link != nil {
						if l := labelOf(p.LastBlock.Link.(cidlink.Link).Cid); l >= 0 && l < 100 && !seen[l] {
							seen[l] = true
							rs.delivered = append(rs.delivered, l)
						}
					}
					mu.Unlock()
				case e, ok := <-errs:
					if !ok {
						errs = nil
						continue
					}
					mu.Lock()
					if me, isMissing := e.(graphsync.RemoteMissingBlockErr); isMissing {
						rs.missing = append(rs.missing, labelOf(me.Link.(cidlink.Link).Cid))
					} else {
						s := fmt.Sprintf("%T: %v", e, e)
						if len(s) > 200 {
							s = s[:200]
						}
						rs.other = append(rs.other, s)
					}
					mu.Unlock()
				}
			}
		}()
		return rs
	}
	quiet := func(d time.Duration) {
		last, since := "", time.Now()
		for startT := time.Now(); time.Since(startT) < time.Second; {
			mu.Lock()
			s := fmt.Sprint(len(net.Log()), net.InFlight(), builds)
			mu.Unlock()
			if s != last {
				last, since = s, time.Now()
			} else if time.Since(since) > d {
				return
			}
			time.Sleep(300 * time.Microsecond)
		}
	}
	// set-up: A's root goes through completely, then B's; both responder traversals then wait at the hook of their first leaf
	var extsA []graphsync.ExtensionData
	if len(c.IgnA) > 0 {
		set := cid.NewSet()
		for _, l := range c.IgnA {
			set.Add(dA.ByLabel[l])
		}
		extsA = append(extsA, graphsync.ExtensionData{Name: graphsync.ExtensionDoNotSendCIDs, Data: cidset.EncodeCidSet(set)})
	}
	mu.Lock()
	scripted = true // leaf gates are active from the start; roots never reach a gate, the sender and the network are let through during set-up
	mu.Unlock()
	setupPass := func(d time.Duration) {
		// let wake-ups and sends through until things are quiet (only root traffic can be around)
		deadline := time.Now().Add(d)
		idle := time.Now()
		for time.Now().Before(deadline) {
			releaseAll("wake")
			releaseAll("send")
			select {
			case a := <-arrivals:
				if a.key == "wake" || a.key == "send" {
					close(a.release)
				} else {
					pendingGates[a.key] = append(pendingGates[a.key], a.release)
				}
				idle = time.Now()
			case <-time.After(500 * time.Microsecond):
				if time.Since(idle) > 6*time.Millisecond {
					return
				}
			}
		}
	}
	rsA := start(idA, dA, extsA...)
	if c.PauseA {
		for t := time.Now(); time.Since(t) < 2*time.Second; {
			setupPass(2 * time.Millisecond)
			if gsS.(*gsimpl.GraphSync).PeerState(pR).IncomingState.RequestStates[idA] == graphsync.Paused {
				cctx, cc := context.WithTimeout(ctx, time.Second)
				_ = gsS.Unpause(cctx, idA)
				cc()
				break
			}
		}
	}
	if !waitForWith(waitFor, setupPass, "hook:A") {
		obs.Desync = "set-up: the responder never reached A's first leaf"
	}
	setupPass(300 * time.Millisecond)
	rsB := start(idB, dB)
	if obs.Desync == "" && !waitForWith(waitFor, setupPass, "hook:B") {
		obs.Desync = "set-up: the responder never reached B's first leaf"
	}
	setupPass(300 * time.Millisecond)
	quiet(3 * time.Millisecond)
	// ---- the script
	sendHeld := func() bool { return len(pendingGates["send"]) > 0 }
	letSenderTake := func() {
		if sendHeld() {
			return
		}
		drain(2 * time.Millisecond)
		if len(pendingGates["wake"]) > 0 {
			releaseAll("wake")
			waitFor("send", 100*time.Millisecond) // an empty builder produces no send: then nothing arrives
			drain(time.Millisecond)
		}
	}
	leafIdx := map[string]int{"A": 0, "B": 0}
	seqOf := map[string][]int{"A": c.SeqA, "B": c.SeqB}
	for i, e := range c.Script {
		if obs.Desync != "" {
			break
		}
		trace("EVENT %d %s %s %d", i, e.Ev, e.R, e.C)
		switch e.Ev {
		case "resp":
			if !waitFor("hook:"+e.R, 1500*time.Millisecond) {
				obs.Desync = fmt.Sprintf("event %d: the responder is not at a leaf hook of %s", i, e.R)
				break
			}
			mu.Lock()
			b0 := builds
			mu.Unlock()
			releaseAll("hook:" + e.R)
			leafIdx[e.R]++
			want := 1
			if leafIdx[e.R] == len(seqOf[e.R]) {
				want = 2 // the leaf's transaction and the one that finishes the response
			}
			for startT := time.Now(); time.Since(startT) < 1500*time.Millisecond; {
				mu.Lock()
				n := builds - b0
				mu.Unlock()
				if n >= want {
					break
				}
				time.Sleep(200 * time.Microsecond)
			}
			if want == 1 {
				waitFor("hook:"+e.R, 1500*time.Millisecond)
			}
			letSenderTake()
		case "deliver":
			if !waitFor("send", 1500*time.Millisecond) {
				obs.Desync = fmt.Sprintf("event %d: no message is waiting on the network", i)
				break
			}
			releaseAll("send")
			quiet(3 * time.Millisecond)
			drain(3 * time.Millisecond)
			letSenderTake()
		case "commit":
			k := fmt.Sprintf("commit:%d", e.C)
			if !waitFor(k, 1500*time.Millisecond) {
				obs.Desync = fmt.Sprintf("event %d: no write of leaf %d is waiting to be committed", i, e.C)
				break
			}
			releaseAll(k)
			drain(3 * time.Millisecond)
		}
	}
	// ---- run-out: every gate open
	mu.Lock()
	scripted = false
	mu.Unlock()
	for k := range pendingGates {
		releaseAll(k)
	}
	go func() {
		for {
			select {
			case a := <-arrivals:
				close(a.release)
			case <-ctx.Done():
				return
			}
		}
	}()
	for _, rs := range []*reqState{rsA, rsB} {
		select {
		case <-rs.done:
		case <-time.After(3 * time.Second):
			obs.Hang = true
		}
	}
	if os.Getenv("VERIF_CONC_DEBUG") != "" {
		for _, m := range net.Log() {
			if m.From != pS {
				continue
			}
			line := fmt.Sprintf("msg %d:", m.Seq)
			for _, rsp := range m.Msg.Responses() {
				line += fmt.Sprintf(" %s[", nameOf(rsp.RequestID()))
				md := rsp.Metadata()
				md.Iterate(func(cc cid.Cid, a graphsync.LinkAction) { line += fmt.Sprintf("%d%s ", labelOf(cc), string(a)[:1]) })
				line += "]" + statusName(rsp.Status())
			}
			line += " blocks:"
			for _, b := range m.Msg.Blocks() {
				line += fmt.Sprintf(" %d", labelOf(b.Cid()))
			}
			fmt.Fprintln(os.Stderr, line)
		}
	}
	mu.Lock()
	obs.DA, obs.DB = append([]int{}, rsA.delivered...), append([]int{}, rsB.delivered...)
	obs.EA, obs.EB = append([]int{}, rsA.missing...), append([]int{}, rsB.missing...)
	obs.OtherErrs = append(append([]string{}, rsA.other...), rsB.other...)
	mu.Unlock()
	sort.Ints(obs.EA)
	sort.Ints(obs.EB)
	leavesIn := func(st *dagreal.Store) []int {
		out := []int{}
		for _, cc := range st.Cids() {
			if l := labelOf(cc); l >= 0 && l < 100 {
				out = append(out, l)
			}
		}
		sort.Ints(out)
		return out
	}
	obs.StoreA, obs.StoreB = leavesIn(stOfA), leavesIn(stDef)
	return obs
}

func waitForWith(waitFor func(string, time.Duration) bool, pass func(time.Duration), key string) bool {
	for i := 0; i < 200; i++ {
		pass(5 * time.Millisecond)
		if waitFor(key, time.Millisecond) {
			return true
		}
	}
	return false
}

func concRun(args []string) error {
	fs := flag.NewFlagSet("conc-run", flag.ExitOnError)
	in := fs.String("in", "", "")
	out := fs.String("out", "", "")
	fs.Parse(args)
	f, err := os.Open(*in)
	if err != nil {
		return err
	}
	defer f.Close()
	w, err := os.Create(*out)
	if err != nil {
		return err
	}
	defer w.Close()
	bw := bufio.NewWriter(w)
	defer bw.Flush()
	enc := json.NewEncoder(bw)
	sc := bufio.NewScanner(f)
	sc.Buffer(make([]byte, 1<<20), 1<<26)
	for sc.Scan() {
		var c concCase
		if err := json.Unmarshal(sc.Bytes(), &c); err != nil {
			return err
		}
		enc.Encode(map[string]any{"case": c, "obs": runConcCase(c)})
	}
	return nil
}
