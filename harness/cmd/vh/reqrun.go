package main

import (
	"bufio"
	"context"
	"encoding/json"
	"errors"
	"flag"
	"fmt"
	"os"
	"runtime"
	"sort"
	"sync"
	"time"

	blocks "github.com/ipfs/go-block-format"
	"github.com/ipfs/go-cid"
	"github.com/ipfs/go-graphsync"
	gsimpl "github.com/ipfs/go-graphsync/impl"
	gsmsg "github.com/ipfs/go-graphsync/message"
	"github.com/ipfs/go-graphsync/peerstate"
	cidlink "github.com/ipld/go-ipld-prime/linking/cid"
	"github.com/ipld/go-ipld-prime/node/basicnode"
	"github.com/libp2p/go-libp2p/core/peer"

	"verifharness/dagreal"
	"verifharness/verifnet"
)

func init() { register("req-run", reqRun) }

// ---- scripts emitted by RequestorScripts.tla
type reqEv struct {
	Ev string `json:"ev"` // B | C | pause | unpause | ctxcancel | apicancel | hook
	A  string `json:"a"`  // status (B, C) or hook decision
	B  string `json:"b"`  // response-hook reaction (B, C)
	At string `json:"at"` // preload | hook | wait | idle
	K  int    `json:"k"`
}
type reqCase struct {
	ID        int             `json:"id"`
	Script    []reqEv         `json:"script"`
	Finals    json.RawMessage `json:"finals,omitempty"`
	DevFinals json.RawMessage `json:"devfinals,omitempty"`
}
type reqObs struct {
	Closed          [2]bool    `json:"closed"`
	Errs            []string   `json:"errs"`
	Wire            [][]string `json:"wire"`  // messages sent by the requestor: [to, type]
	Hooks           []string   `json:"hooks"` // peers whose responses reached the response hooks
	BlockHookPeers  []string   `json:"blockHookPeers"`
	K               int        `json:"k"`
	St              string     `json:"st"`
	Task            string     `json:"task"`
	Diag            []string   `json:"diag"`
	Desync          string     `json:"desync"`
	Protected       []string   `json:"protected"`
	CancelReturned  bool       `json:"cancelReturned"`
	Wedged          bool       `json:"wedged"`
	ApiCancelCalled bool       `json:"apiCancelCalled"`
}

type gateArrival struct {
	kind  string // storage | hook
	k     int
	reply chan string
}

var errHookSentinel = errors.New("verif: response hook error")
var errBlockHookSentinel = errors.New("verif: block hook error")

const reqK = 2

func runReqCase(c reqCase) (obs reqObs) {
	ctx, cancelAll := context.WithCancel(context.Background())
	defer cancelAll()
	// chain of reqK blocks, all at the responder only
	t := dagreal.Tree{N: reqK, Par: make([]int, reqK+1), Dep: make([]int, reqK+1), Cid: make([]int, reqK+1)}
	for i := 1; i <= reqK; i++ {
		t.Par[i], t.Dep[i], t.Cid[i] = i-1, i-1, i
	}
	d, err := dagreal.Build(t, fmt.Sprintf("rq%d", c.ID))
	if err != nil || d == nil {
		obs.Desync = "cannot build dag"
		return
	}
	sel := dagreal.AllSelector(20)
	net := verifnet.New()
	pA, pB, pC := peer.ID("requestor-A"), peer.ID("responder-B"), peer.ID("third-C")
	epA, epB, epC := net.Endpoint(ctx, pA), net.Endpoint(ctx, pB), net.Endpoint(ctx, pC)
	type reqSeen struct {
		skip int
	}
	var mu sync.Mutex
	// raw B and C just record what reaches them
	newReqs := make(chan int, 16)
	epB.SetDelegate(&rawRecv{onMsg: func(from peer.ID, m gsmsg.GraphSyncMessage) {
		for _, r := range m.Requests() {
			if r.Type() == graphsync.RequestTypeNew {
				skip := 0
				if n, has := r.Extension(graphsync.ExtensionsDoNotSendFirstBlocks); has {
					v, _ := n.AsInt()
					skip = int(v)
				}
				newReqs <- skip
			}
		}
	}})
	epC.SetDelegate(&rawRecv{})
	gates := make(chan gateArrival, 8)
	var auto bool // auto-release mode
	gate := func(kind string, k int) string {
		mu.Lock()
		a := auto
		mu.Unlock()
		if a {
			return "ok"
		}
		arr := gateArrival{kind, k, make(chan string, 1)}
		select {
		case gates <- arr:
		case <-ctx.Done():
			return "ok"
		}
		select {
		case r := <-arr.reply:
			return r
		case <-ctx.Done():
			return "ok"
		}
	}
	stA := dagreal.NewStore(nil)
	stA.OnRead = func(c cid.Cid, ok bool) {
		if _, mine := d.LabelOf[c]; !ok && mine {
			gate("storage", 0)
		}
	}
	startBlocked := len(c.Script) > 0 && c.Script[0].Ev == "blockedstart"
	hasC := false
	for _, e := range c.Script {
		if e.Ev == "C" {
			hasC = true
		}
	}
	var optsA []gsimpl.Option
	if startBlocked {
		w := uint64(1)
		if hasC {
			w = 2 // one more worker for the request that is outstanding at the third peer
		}
		optsA = append(optsA, gsimpl.MaxInProgressOutgoingRequests(w))
	}
	gsA := gsimpl.New(ctx, epA, stA.LinkSystem(), optsA...).(*gsimpl.GraphSync)
	pZ := peer.ID("silent-Z")
	epZ := net.Endpoint(ctx, pZ)
	epZ.SetDelegate(&rawRecv{})
	if hasC {
		// the third peer is not a stranger: the requestor has another request outstanding with it (never answered)
		ct := dagreal.Tree{N: 1, Par: []int{0, 0}, Dep: []int{0, 0}, Cid: []int{0, 1}}
		cd, _ := dagreal.Build(ct, fmt.Sprintf("other%d", c.ID))
		cp, ce := gsA.Request(ctx, pC, cidlink.Link{Cid: cd.Root}, sel)
		go func() {
			for cp != nil || ce != nil {
				select {
				case _, ok := <-cp:
					if !ok {
						cp = nil
					}
				case _, ok := <-ce:
					if !ok {
						ce = nil
					}
				}
			}
		}()
		for i := 0; i < 2000; i++ {
			sent := false
			for _, s := range net.Log() {
				if s.To == pC {
					sent = true
				}
			}
			if sent {
				break
			}
			time.Sleep(100 * time.Microsecond)
		}
	}
	var blockerCancel context.CancelFunc
	blockerDone := make(chan struct{})
	if startBlocked {
		// another request, to a silent peer, occupies the only worker
		bt := dagreal.Tree{N: 1, Par: []int{0, 0}, Dep: []int{0, 0}, Cid: []int{0, 1}}
		bd, _ := dagreal.Build(bt, fmt.Sprintf("blocker%d", c.ID))
		var bctx context.Context
		bctx, blockerCancel = context.WithCancel(ctx)
		bp, be := gsA.Request(bctx, pZ, cidlink.Link{Cid: bd.Root}, sel)
		go func() {
			for bp != nil || be != nil {
				select {
				case _, ok := <-bp:
					if !ok {
						bp = nil
					}
				case _, ok := <-be:
					if !ok {
						be = nil
					}
				}
			}
			close(blockerDone)
		}()
		// wait until the blocker has gone to the network (it is then parked waiting for Z)
		for i := 0; i < 2000; i++ {
			sent := false
			for _, s := range net.Log() {
				if s.To == pZ {
					sent = true
				}
			}
			if sent {
				break
			}
			time.Sleep(100 * time.Microsecond)
		}
	}
	react := "ok"
	hookPeers := map[string]bool{}
	blockHookPeers := map[string]bool{}
	name := func(p peer.ID) string {
		switch p {
		case pB:
			return "B"
		case pC:
			return "C"
		}
		return "?"
	}
	gsA.RegisterIncomingResponseHook(func(p peer.ID, r graphsync.ResponseData, ha graphsync.IncomingResponseHookActions) {
		mu.Lock()
		hookPeers[name(p)] = true
		re := react
		mu.Unlock()
		switch re {
		case "update":
			ha.UpdateRequestWithExtensions(graphsync.ExtensionData{Name: "verif/ext", Data: basicnode.NewString("x")})
		case "error":
			ha.TerminateWithError(errHookSentinel)
		}
	})
	nblocks := 0
	gsA.RegisterIncomingBlockHook(func(p peer.ID, r graphsync.ResponseData, b graphsync.BlockData, ha graphsync.IncomingBlockHookActions) {
		mu.Lock()
		nblocks++
		kk := nblocks
		blockHookPeers[name(p)] = true
		mu.Unlock()
		switch gate("hook", kk) {
		case "pause":
			ha.PauseRequest()
		case "error":
			ha.TerminateWithError(errBlockHookSentinel)
		}
	})
	reqID := graphsync.NewRequestID()
	callerCtx, callerCancel := context.WithCancel(context.WithValue(ctx, graphsync.RequestIDContextKey{}, reqID))
	defer callerCancel()
	startSetup := false
	for _, e := range c.Script {
		if e.Ev == "setupstart" {
			startSetup = true
		}
	}
	gsA.RegisterOutgoingRequestHook(func(p peer.ID, r graphsync.RequestData, ha graphsync.OutgoingRequestHookActions) {
		if startSetup && r.ID() == reqID {
			gate("setup", 0)
		}
	})
	type chans struct {
		p <-chan graphsync.ResponseProgress
		e <-chan error
	}
	reqReturned := make(chan chans, 1)
	go func() {
		p, e := gsA.Request(callerCtx, pB, cidlink.Link{Cid: d.Root}, sel)
		reqReturned <- chans{p, e}
	}()
	var progress <-chan graphsync.ResponseProgress
	var errs <-chan error
	if !startSetup {
		ch := <-reqReturned
		progress, errs = ch.p, ch.e
	}
	// reader: the caller keeps reading both channels
	var rmu sync.Mutex
	delivered := map[string]bool{}
	var gotErrs []string
	closedP, closedE := false, false
	go func() {
		if startSetup {
			select {
			case ch := <-reqReturned:
				progress, errs = ch.p, ch.e
			case <-ctx.Done():
				return
			}
		}
		for progress != nil || errs != nil {
			select {
			case p, ok := <-progress:
				if !ok {
					progress = nil
					rmu.Lock()
					closedP = true
					rmu.Unlock()
					continue
				}
				rmu.Lock()
				delivered[p.LastBlock.Path.String()] = true
				rmu.Unlock()
			case e, ok := <-errs:
				if !ok {
					errs = nil
					rmu.Lock()
					closedE = true
					rmu.Unlock()
					continue
				}
				kind := fmt.Sprintf("other:%T", e)
				var mbe graphsync.RemoteMissingBlockErr
				switch {
				case errors.As(e, &mbe):
					kind = "missing"
				case errors.Is(e, errHookSentinel):
					kind = "hook"
				case errors.Is(e, errBlockHookSentinel):
					kind = "fatal"
				default:
					switch e.(type) {
					case graphsync.RequestClientCancelledErr:
						kind = "client"
					case graphsync.RequestFailedUnknownErr:
						kind = "failed"
					}
				}
				rmu.Lock()
				gotErrs = append(gotErrs, kind)
				rmu.Unlock()
			case <-ctx.Done():
				return
			}
		}
	}()
	inSetup := false // the manager's loop is busy inside the outgoing request hook: it cannot answer
	wedged := false
	barrier := func() {
		if inSetup || wedged {
			return
		}
		done := make(chan struct{})
		go func() { _ = gsA.PeerState(pB); close(done) }()
		select {
		case <-done:
		case <-time.After(3 * time.Second):
			wedged = true // the request manager's loop no longer answers
		}
	}
	// responder B: per incarnation, next block index
	bNext := 1
	bPrefix := 0 // metadata-only entries (blocks the requestor said it has) still owed for this incarnation
	drainNew := func() {
		for {
			select {
			case skip := <-newReqs:
				bNext = skip + 1
				bPrefix = skip
			default:
				return
			}
		}
	}
	sendFrom := func(ep *verifnet.Endpoint, status string, idx int) {
		var md []gsmsg.GraphSyncLinkMetadatum
		blks := map[cid.Cid]blocks.Block{}
		if ep == epB && (status == "partial" || status == "full") && bPrefix > 0 {
			// an honest responder re-traverses from the root: metadata for the skipped prefix, no block data
			for j := 1; j <= bPrefix && j <= reqK; j++ {
				md = append(md, gsmsg.GraphSyncLinkMetadatum{Link: d.ByLabel[j], Action: graphsync.LinkActionPresent})
			}
			bPrefix = 0
		}
		code := graphsync.PartialResponse
		switch status {
		case "paused":
			code = graphsync.RequestPaused
		case "full":
			code = graphsync.RequestCompletedFull
		case "failed":
			code = graphsync.RequestFailedUnknown
		}
		if (status == "partial" || status == "full") && idx <= reqK {
			cc := d.ByLabel[idx]
			md = append(md, gsmsg.GraphSyncLinkMetadatum{Link: cc, Action: graphsync.LinkActionPresent})
			b, _ := blocks.NewBlockWithCid(d.Blocks[cc], cc)
			blks[cc] = b
		}
		msg := gsmsg.NewMessage(nil, map[graphsync.RequestID]gsmsg.GraphSyncResponse{reqID: gsmsg.NewResponse(reqID, code, md)}, blks)
		_ = ep.SendMessage(ctx, pA, msg)
		// wait until the requestor's receive path has handed it to the request manager and it was handled
		for i := 0; i < 2000 && net.InFlight() > 0; i++ {
			time.Sleep(50 * time.Microsecond)
		}
		barrier()
	}
	wireNow := func() [][]string {
		var w [][]string
		for _, s := range net.Log() {
			if s.From != pA || s.To == pZ {
				continue
			}
			for _, r := range s.Msg.Requests() {
				if r.ID() != reqID {
					continue
				}
				ty := "new"
				switch r.Type() {
				case graphsync.RequestTypeCancel:
					ty = "cancel"
				case graphsync.RequestTypeUpdate:
					ty = "update"
				}
				w = append(w, []string{name(s.To), ty})
			}
		}
		return w
	}
	// ---- script driver
	var held *gateArrival
	release := func(dec string) {
		if held != nil {
			held.reply <- dec
			held = nil
		}
	}
	waitGate := func(kind string) bool {
		if held != nil && held.kind == kind {
			return true
		}
		release("ok")
		deadline := time.After(500 * time.Millisecond)
		for {
			select {
			case arr := <-gates:
				if arr.kind == kind {
					held = &arr
					return true
				}
				arr.reply <- "ok" // a gate nobody scripted: let it pass
			case <-deadline:
				return false
			}
		}
	}
	// passGates lets every gate arrival through for a while (the executor runs on to its next stable point)
	passGates := func(dur time.Duration) {
		quiet := time.NewTimer(dur)
		defer quiet.Stop()
		for {
			select {
			case arr := <-gates:
				arr.reply <- "ok"
				quiet.Reset(dur)
			case <-quiet.C:
				return
			}
		}
	}
	cancelDone := make(chan struct{}, 1)
	for i, e := range c.Script {
		switch e.At {
		case "setup":
			if !waitGate("setup") {
				obs.Desync = fmt.Sprintf("event %d: outgoing request hook never called", i)
			}
			inSetup = true
		case "preload":
			if !waitGate("storage") {
				obs.Desync = fmt.Sprintf("event %d: executor never reached a local storage read", i)
			}
		case "hook":
			if !waitGate("hook") {
				obs.Desync = fmt.Sprintf("event %d: block hook never called", i)
			}
		default:
			release("ok")
			passGates(6 * time.Millisecond)
			barrier()
			if e.At == "idle" && !wedged {
				// "idle": the request's executor is not running (the request is paused or over).  On a slow machine the executor
				// may still be on its way out: wait until the request has left the active set of the task queue
				for t := time.Now(); time.Since(t) < time.Second; time.Sleep(time.Millisecond) {
					active := false
					for _, id := range gsA.PeerState(pB).OutgoingState.TaskQueueState.Active {
						if id == reqID {
							active = true
						}
					}
					if !active {
						break
					}
					passGates(time.Millisecond)
				}
				barrier()
			}
		}
		if obs.Desync != "" || wedged {
			break
		}
		drainNew()
		switch e.Ev {
		case "blockedstart", "setupstart":
		case "setupdone":
			release("ok")
			inSetup = false
			barrier()
		case "free":
			if blockerCancel != nil {
				blockerCancel()
				select {
				case <-blockerDone:
				case <-time.After(2 * time.Second):
					obs.Desync = "blocker request did not end"
				}
				barrier()
			}
		case "hook":
			release(e.A)
		case "B":
			mu.Lock()
			react = e.B
			mu.Unlock()
			sendFrom(epB, e.A, bNext)
			if e.A == "partial" || e.A == "full" {
				bNext++
			}
		case "C":
			mu.Lock()
			react = e.B
			mu.Unlock()
			sendFrom(epC, e.A, e.K+1)
		case "pause":
			_ = gsA.Pause(ctx, reqID)
		case "unpause":
			_ = gsA.Unpause(ctx, reqID)
		case "ctxcancel":
			callerCancel()
			for j := 0; j < 200; j++ { // until the collectors have reacted
				rmu.Lock()
				ce := closedE
				rmu.Unlock()
				if ce {
					break
				}
				time.Sleep(250 * time.Microsecond)
			}
			time.Sleep(2 * time.Millisecond)
			barrier()
		case "apicancel":
			obs.ApiCancelCalled = true
			go func() {
				_ = gsA.Cancel(ctx, reqID)
				cancelDone <- struct{}{}
			}()
			time.Sleep(2 * time.Millisecond)
			barrier()
		}
	}
	// ---- let everything run out and observe at quiescence
	mu.Lock()
	auto = true
	mu.Unlock()
	release("ok")
	inSetup = false
	go func() {
		for {
			select {
			case arr := <-gates:
				arr.reply <- "ok"
			case <-ctx.Done():
				return
			}
		}
	}()
	snapshot := func() string {
		rmu.Lock()
		s := fmt.Sprint(closedP, closedE, len(gotErrs), len(delivered))
		rmu.Unlock()
		return s + fmt.Sprint(len(net.Log()))
	}
	// how long nothing must change before the run counts as over depends on how late goroutines get scheduled on this
	// machine right now (a queued cancel is sent by the message queue's own goroutine): measured, not assumed
	window := 40 * time.Millisecond
	var worst time.Duration
	for i := 0; i < 3; i++ {
		t := time.Now()
		time.Sleep(2 * time.Millisecond)
		if over := time.Since(t) - 2*time.Millisecond; over > worst {
			worst = over
		}
	}
	window += 40 * worst
	if window > 500*time.Millisecond {
		window = 500 * time.Millisecond
	}
	last, stableSince := "", time.Now()
	for start := time.Now(); time.Since(start) < 4*time.Second && !wedged; {
		time.Sleep(3 * time.Millisecond)
		barrier()
		s := snapshot()
		if s != last {
			last, stableSince = s, time.Now()
		} else if time.Since(stableSince) > window {
			break
		}
	}
	select {
	case <-cancelDone:
		obs.CancelReturned = true
	default:
	}
	rmu.Lock()
	obs.Closed = [2]bool{closedP, closedE}
	obs.Errs = append([]string{}, gotErrs...)
	obs.K = len(delivered)
	rmu.Unlock()
	obs.Wire = wireNow()
	if obs.Wire == nil {
		obs.Wire = [][]string{}
	}
	mu.Lock()
	for p := range hookPeers {
		obs.Hooks = append(obs.Hooks, p)
	}
	for p := range blockHookPeers {
		obs.BlockHookPeers = append(obs.BlockHookPeers, p)
	}
	mu.Unlock()
	sort.Strings(obs.Hooks)
	sort.Strings(obs.BlockHookPeers)
	obs.Wedged = wedged
	var ps peerstate.PeerState
	if !wedged {
		ps = gsA.PeerState(pB).OutgoingState
	}
	obs.St, obs.Task = "gone", "none"
	if s, ok := ps.RequestStates[reqID]; ok {
		obs.St = s.String()
	}
	for _, id := range ps.TaskQueueState.Active {
		if id == reqID {
			obs.Task = "active"
		}
	}
	for _, id := range ps.TaskQueueState.Pending {
		if id == reqID {
			obs.Task = "pending"
		}
	}
	for id, ds := range ps.Diagnostics() {
		_ = id
		obs.Diag = append(obs.Diag, ds...)
	}
	for _, k := range epA.Conn.Protected() {
		if len(k) >= len(pB) && k[:len(pB)] == string(pB) {
			obs.Protected = append(obs.Protected, k)
		}
	}
	for _, e := range []*[]string{&obs.Errs, &obs.Hooks, &obs.BlockHookPeers, &obs.Diag, &obs.Protected} {
		if *e == nil {
			*e = []string{}
		}
	}
	return obs
}

type rawRecv struct {
	onMsg func(from peer.ID, m gsmsg.GraphSyncMessage)
}

func (r *rawRecv) ReceiveMessage(ctx context.Context, sender peer.ID, m gsmsg.GraphSyncMessage) {
	if r.onMsg != nil {
		r.onMsg(sender, m)
	}
}
func (r *rawRecv) ReceiveError(p peer.ID, err error) {}
func (r *rawRecv) Connected(p peer.ID)               {}
func (r *rawRecv) Disconnected(p peer.ID)            {}

func reqRun(args []string) error {
	fs := flag.NewFlagSet("req-run", flag.ExitOnError)
	in := fs.String("in", "", "")
	out := fs.String("out", "", "")
	par := fs.Int("par", runtime.NumCPU(), "")
	fs.Parse(args)
	f, err := os.Open(*in)
	if err != nil {
		return err
	}
	defer f.Close()
	var cases []reqCase
	sc := bufio.NewScanner(f)
	sc.Buffer(make([]byte, 1<<20), 1<<26)
	for sc.Scan() {
		var c reqCase
		if err := json.Unmarshal(sc.Bytes(), &c); err != nil {
			return err
		}
		cases = append(cases, c)
	}
	type res struct {
		Case reqCase `json:"case"`
		Obs  reqObs  `json:"obs"`
	}
	results := make([]res, len(cases))
	var wg sync.WaitGroup
	sem := make(chan struct{}, *par)
	for i := range cases {
		wg.Add(1)
		sem <- struct{}{}
		go func(i int) {
			defer wg.Done()
			defer func() { <-sem }()
			results[i] = res{cases[i], runReqCase(cases[i])}
		}(i)
	}
	wg.Wait()
	w, err := os.Create(*out)
	if err != nil {
		return err
	}
	defer w.Close()
	bw := bufio.NewWriter(w)
	defer bw.Flush()
	enc := json.NewEncoder(bw)
	for i := range results {
		enc.Encode(results[i])
	}
	return nil
}
