package main

import (
	"bufio"
	"encoding/json"
	"flag"
	"fmt"
	"math/rand"
	"os"
	"sort"
	"strings"

	"github.com/ipfs/go-graphsync/allocator"
	"github.com/libp2p/go-libp2p/core/peer"
)

func init() {
	register("alloc-replay", allocReplay)
	register("alloc-trace", allocTrace)
}

type pendV struct {
	Peer string `json:"peer"`
	Amt  uint64 `json:"amt"`
}
type allocState struct {
	Alloc map[string]uint64 `json:"alloc"`
	Pend  []pendV           `json:"pend"`
	Total uint64            `json:"total"`
}
type allocAct struct {
	Op string `json:"op"`
	P  string `json:"p"`
	N  uint64 `json:"n"`
}
type allocEdge struct {
	From       allocState `json:"from"`
	Act        allocAct   `json:"act"`
	To         allocState `json:"to"`
	GrantedIdx []int      `json:"grantedIdx"`
	FailedIdx  []int      `json:"failedIdx"`
	NewRes     string     `json:"newRes"`
}

func (s allocState) key() string {
	ks := make([]string, 0, len(s.Alloc))
	for k := range s.Alloc {
		ks = append(ks, k)
	}
	sort.Strings(ks)
	var b strings.Builder
	for _, k := range ks {
		fmt.Fprintf(&b, "%s=%d,", k, s.Alloc[k])
	}
	b.WriteString("|")
	for _, p := range s.Pend {
		fmt.Fprintf(&b, "%s:%d,", p.Peer, p.Amt)
	}
	return b.String()
}

// realAlloc wraps the real allocator together with the harness's own view of which returned
// channels are still unresolved, in request order.
type realAlloc struct {
	a       *allocator.Allocator
	scale   uint64
	waiting []waitCh
}
type waitCh struct {
	peer string
	amt  uint64
	ch   <-chan error
}

func pid(s string) peer.ID { return peer.ID("peer-" + s) }

// chState: "granted", "failed" or "waiting" without blocking.
func chState(ch <-chan error) (string, bool) {
	select {
	case err := <-ch:
		if err == nil {
			return "granted", true
		}
		return "failed", true
	default:
		return "waiting", false
	}
}

// apply performs one operation; returns resolution of a new allocation ("none" otherwise) and
// the indices (1-based, in the pre-state waiting list) that resolved granted / failed.
func (r *realAlloc) apply(act allocAct) (newRes string, grantedIdx, failedIdx []int) {
	newRes = "none"
	pre := r.waiting
	var newW *waitCh
	switch act.Op {
	case "alloc":
		ch := r.a.AllocateBlockMemory(pid(act.P), act.N*r.scale)
		st, _ := chState(ch)
		newRes = st
		if st == "waiting" {
			newW = &waitCh{act.P, act.N, ch}
		}
	case "release":
		_ = r.a.ReleaseBlockMemory(pid(act.P), act.N*r.scale)
	case "releasepeer":
		_ = r.a.ReleasePeerMemory(pid(act.P))
	}
	var still []waitCh
	for i, w := range pre {
		st, _ := chState(w.ch)
		switch st {
		case "granted":
			grantedIdx = append(grantedIdx, i+1)
		case "failed":
			failedIdx = append(failedIdx, i+1)
		default:
			still = append(still, w)
		}
	}
	if newW != nil {
		still = append(still, *newW)
	}
	r.waiting = still
	return
}

func (r *realAlloc) observe(peers []string) allocState {
	s := allocState{Alloc: map[string]uint64{}}
	for _, p := range peers {
		s.Alloc[p] = r.a.AllocatedForPeer(pid(p))
	}
	for _, w := range r.waiting {
		s.Pend = append(s.Pend, pendV{w.peer, w.amt})
	}
	s.Total = r.a.Stats().TotalAllocatedAllPeers
	return s
}

func eqInts(a, b []int) bool {
	if len(a) != len(b) {
		return false
	}
	for i := range a {
		if a[i] != b[i] {
			return false
		}
	}
	return true
}

// allocReplay: B1. Reads TLC's edges (JSON lines), replays each on a fresh real allocator
// driven to the edge's source state along its BFS path, compares all observables.
func allocReplay(args []string) error {
	fs := flag.NewFlagSet("alloc-replay", flag.ExitOnError)
	edgesF := fs.String("edges", "", "ndjson edges file")
	maxTotal := fs.Uint64("maxtotal", 0, "")
	maxPeer := fs.Uint64("maxpeer", 0, "")
	scale := fs.Uint64("scale", 1, "real bytes per model unit")
	fs.Parse(args)
	f, err := os.Open(*edgesF)
	if err != nil {
		return err
	}
	defer f.Close()
	sc := bufio.NewScanner(f)
	sc.Buffer(make([]byte, 1<<20), 1<<26)
	paths := map[string][]allocAct{}
	first := true
	type mismatch struct {
		Edge allocEdge  `json:"edge"`
		Path []allocAct `json:"path"`
		Got  allocState `json:"got"`
		What string     `json:"what"`
	}
	var mism []mismatch
	nEdges, nStates := 0, 0
	var sample []allocEdge
	for sc.Scan() {
		var e allocEdge
		if err := json.Unmarshal(sc.Bytes(), &e); err != nil {
			return fmt.Errorf("bad edge: %v", err)
		}
		if first {
			paths[e.From.key()] = nil
			first = false
			nStates++
		}
		path, ok := paths[e.From.key()]
		if !ok {
			return fmt.Errorf("edge from unknown state %s (edges not in BFS order?)", e.From.key())
		}
		peers := make([]string, 0)
		for p := range e.From.Alloc {
			peers = append(peers, p)
		}
		sort.Strings(peers)
		r := &realAlloc{a: allocator.NewAllocator(*maxTotal**scale, *maxPeer**scale), scale: *scale}
		for _, a := range path {
			r.apply(a)
		}
		pre := r.observe(peers)
		what := ""
		if normKey(pre, *scale) != e.From.key() {
			what = "source state not reproduced by its own path"
		}
		newRes, g, fl := r.apply(e.Act)
		got := r.observe(peers)
		if what == "" {
			switch {
			case normKey(got, *scale) != e.To.key():
				what = "post-state (per-peer totals / waiting list) differs"
			case got.Total != e.To.Total**scale:
				what = "Stats().TotalAllocatedAllPeers differs"
			case newRes != e.NewRes:
				what = "resolution of the new allocation differs: real " + newRes + " model " + e.NewRes
			case !eqInts(g, e.GrantedIdx):
				what = "set of waiting allocations granted by this step differs"
			case !eqInts(fl, e.FailedIdx):
				what = "set of waiting allocations failed by this step differs"
			}
			st := r.a.Stats()
			var pt uint64
			np := map[string]bool{}
			ptOverflow := false
			for _, w := range e.To.Pend {
				if pt+w.Amt**scale < pt {
					ptOverflow = true // true pending sum is not representable in uint64: not comparable
				}
				pt += w.Amt * *scale
				np[w.Peer] = true
			}
			if what == "" && !ptOverflow && (st.TotalPendingAllocations != pt || st.NumPeersWithPendingAllocations != uint64(len(np))) {
				what = "Stats() pending totals differ"
			}
		}
		if what != "" {
			if len(mism) < 20 {
				mism = append(mism, mismatch{e, path, got, what})
			}
		}
		nEdges++
		if len(sample) < 3 && len(path) >= 3 {
			sample = append(sample, e)
		}
		if _, seen := paths[e.To.key()]; !seen {
			np := make([]allocAct, len(path)+1)
			copy(np, path)
			np[len(path)] = e.Act
			paths[e.To.key()] = np
			nStates++
		}
	}
	out := map[string]any{"edges": nEdges, "states": nStates, "mismatches": mism, "samples": sample}
	return json.NewEncoder(os.Stdout).Encode(out)
}

func pendOrEmpty(p []pendV) []pendV {
	if p == nil {
		return []pendV{}
	}
	return p
}

func normKey(s allocState, scale uint64) string {
	n := allocState{Alloc: map[string]uint64{}}
	for k, v := range s.Alloc {
		if v%scale != 0 {
			return fmt.Sprintf("non-multiple %s=%d", k, v)
		}
		n.Alloc[k] = v / scale
	}
	n.Pend = s.Pend
	return n.key()
}

// allocTrace: B3. Seeded random histories on the real allocator, recorded as ndjson for
// AllocatorTrace.tla.  Each line is one completed call with the observables after it.
func allocTrace(args []string) error {
	fs := flag.NewFlagSet("alloc-trace", flag.ExitOnError)
	seed := fs.Int64("seed", 1, "")
	nh := fs.Int("histories", 50, "")
	nops := fs.Int("ops", 30, "")
	maxTotal := fs.Uint64("maxtotal", 4, "")
	maxPeer := fs.Uint64("maxpeer", 3, "")
	maxAmt := fs.Int("maxamt", 3, "")
	npeers := fs.Int("peers", 3, "")
	outF := fs.String("out", "", "")
	fs.Parse(args)
	rng := rand.New(rand.NewSource(*seed))
	w, err := os.Create(*outF)
	if err != nil {
		return err
	}
	defer w.Close()
	bw := bufio.NewWriter(w)
	defer bw.Flush()
	enc := json.NewEncoder(bw)
	peers := []string{"a", "b", "c", "d"}[:*npeers]
	for h := 0; h < *nh; h++ {
		r := &realAlloc{a: allocator.NewAllocator(*maxTotal, *maxPeer), scale: 1}
		enc.Encode(map[string]any{"op": "reset"})
		for i := 0; i < *nops; i++ {
			var act allocAct
			act.P = peers[rng.Intn(len(peers))]
			switch x := rng.Intn(10); {
			case x < 5:
				act.Op, act.N = "alloc", uint64(1+rng.Intn(*maxAmt))
			case x < 9:
				act.Op, act.N = "release", uint64(1+rng.Intn(*maxAmt))
			default:
				act.Op = "releasepeer"
			}
			newRes, g, fl := r.apply(act)
			o := r.observe(peers)
			st := r.a.Stats()
			if g == nil {
				g = []int{}
			}
			if fl == nil {
				fl = []int{}
			}
			enc.Encode(map[string]any{"op": act.Op, "p": act.P, "n": act.N, "alloc": o.Alloc, "total": o.Total,
				"pending": st.TotalPendingAllocations, "npend": st.NumPeersWithPendingAllocations,
				"newRes": newRes, "granted": g, "failed": fl, "pend": pendOrEmpty(o.Pend)})
		}
	}
	return nil
}
