package main

import (
	"bufio"
	"bytes"
	"encoding/json"
	"flag"
	"fmt"
	"io"
	"math"
	"os"
	"sort"

	blocks "github.com/ipfs/go-block-format"
	"github.com/ipfs/go-cid"
	"github.com/ipfs/go-graphsync"
	"github.com/ipfs/go-graphsync/cidset"
	"github.com/ipfs/go-graphsync/dedupkey"
	"github.com/ipfs/go-graphsync/donotsendfirstblocks"
	gsmsg "github.com/ipfs/go-graphsync/message"
	gsmsgv2 "github.com/ipfs/go-graphsync/message/v2"
	"github.com/ipld/go-ipld-prime"
	"github.com/ipld/go-ipld-prime/codec/dagcbor"
	"github.com/ipld/go-ipld-prime/datamodel"
	"github.com/ipld/go-ipld-prime/fluent"
	"github.com/ipld/go-ipld-prime/node/basicnode"
	p2pnet "github.com/libp2p/go-libp2p/core/network"
	"github.com/libp2p/go-libp2p/core/peer"
	"github.com/libp2p/go-msgio"
	mh "github.com/multiformats/go-multihash"

	"verifharness/dagreal"
)

func init() { register("wire-rt", wireRT) }

type absExt struct {
	Name string `json:"name"`
	Val  string `json:"val"`
}
type absReq struct {
	ID   int      `json:"id"`
	Type string   `json:"type"`
	Prio string   `json:"prio"`
	Root string   `json:"root"`
	Sel  string   `json:"sel"`
	Ext  []absExt `json:"ext"`
}
type absMd struct {
	L string `json:"l"`
	A string `json:"a"`
}
type absResp struct {
	ID     int      `json:"id"`
	Status int      `json:"status"`
	Md     []absMd  `json:"md"`
	Ext    []absExt `json:"ext"`
}
type absMsg struct {
	Reqs   []absReq  `json:"reqs"`
	Resps  []absResp `json:"resps"`
	Blocks []string  `json:"blocks"`
}

var wireIDs = map[int]graphsync.RequestID{}
var wireCids = map[string]cid.Cid{}
var wireCidNames = map[cid.Cid]string{}
var wireBlocks = map[string]blocks.Block{}
var wireBlockNames = map[cid.Cid]string{}
var wirePrios = map[string]graphsync.Priority{"0": 0, "1": 1, "-1": -1, "max-int32": math.MaxInt32, "min-int32": math.MinInt32}
var wireSels = map[string]datamodel.Node{}
var nestedNode datamodel.Node

func initWire() {
	if len(wireIDs) > 0 {
		return
	}
	for i := 1; i <= 3; i++ {
		b := make([]byte, 16)
		for j := range b {
			b[j] = byte(i*16 + j)
		}
		b[6] = (b[6] & 0x0f) | 0x40
		b[8] = (b[8] & 0x3f) | 0x80
		id, err := graphsync.ParseRequestID(b)
		if err != nil {
			panic(err)
		}
		wireIDs[i] = id
	}
	sum := func(d string) mh.Multihash { h, _ := mh.Sum([]byte(d), mh.SHA2_256, -1); return h }
	idh, _ := mh.Sum([]byte("tiny"), mh.IDENTITY, -1)
	wireCids["v0-dagpb"] = cid.NewCidV0(sum("pb"))
	wireCids["v1-raw"] = cid.NewCidV1(cid.Raw, sum("raw"))
	wireCids["v1-dagcbor"] = cid.NewCidV1(cid.DagCBOR, sum("cbor"))
	wireCids["v1-identity"] = cid.NewCidV1(cid.Raw, idh)
	for n, c := range wireCids {
		wireCidNames[c] = n
	}
	mk := func(name string, data []byte, c cid.Cid) {
		b, err := blocks.NewBlockWithCid(data, c)
		if err != nil {
			panic(err)
		}
		wireBlocks[name] = b
		wireBlockNames[c] = name
	}
	mk("b-raw", []byte("rawdata"), cid.NewCidV1(cid.Raw, sum("rawdata")))
	var cb bytes.Buffer
	dagcbor.Encode(fluent.MustBuildMap(basicnode.Prototype.Map, 1, func(ma fluent.MapAssembler) { ma.AssembleEntry("k").AssignInt(7) }), &cb)
	mk("b-cbor", cb.Bytes(), cid.NewCidV1(cid.DagCBOR, sum(cb.String())))
	mk("b-v0", []byte("v0data"), cid.NewCidV0(sum("v0data")))
	ih, _ := mh.Sum([]byte("idblk"), mh.IDENTITY, -1)
	mk("b-identity", []byte("idblk"), cid.NewCidV1(cid.Raw, ih))
	mk("b-empty", []byte{}, cid.NewCidV1(cid.Raw, sum("")))
	wireSels["matcher"] = fluent.MustBuildMap(basicnode.Prototype.Map, 1, func(ma fluent.MapAssembler) {
		ma.AssembleEntry(".").CreateMap(0, func(fluent.MapAssembler) {})
	})
	wireSels["all-recursive"] = dagreal.AllSelector(10)
	nestedNode = fluent.MustBuildMap(basicnode.Prototype.Map, 1, func(ma fluent.MapAssembler) {
		ma.AssembleEntry("k").CreateList(2, func(la fluent.ListAssembler) {
			la.AssembleValue().AssignInt(1)
			la.AssembleValue().AssignString("a")
		})
	})
}

func extData(e absExt) graphsync.ExtensionData {
	var n datamodel.Node
	switch e.Val {
	case "null":
		n = nil
	case "string":
		n = basicnode.NewString("payload")
	case "int-neg":
		n = basicnode.NewInt(-5)
	case "nested":
		n = nestedNode
	case "bytes":
		n = basicnode.NewBytes([]byte{0, 1, 2, 255})
	case "list-empty":
		n = fluent.MustBuildList(basicnode.Prototype.List, 0, func(fluent.ListAssembler) {})
	case "dnsf:0":
		n = donotsendfirstblocks.EncodeDoNotSendFirstBlocks(0)
	case "dnsf:1":
		n = donotsendfirstblocks.EncodeDoNotSendFirstBlocks(1)
	case "dnsf:big":
		n = donotsendfirstblocks.EncodeDoNotSendFirstBlocks(4294967296)
	case "dnsc:0", "dnsc:1", "dnsc:3":
		set := cid.NewSet()
		names := []string{"v1-raw", "v0-dagpb", "v1-dagcbor"}
		k := int(e.Val[5] - '0')
		for i := 0; i < k; i++ {
			set.Add(wireCids[names[i]])
		}
		n = cidset.EncodeCidSet(set)
	case "key:":
		n, _ = dedupkey.EncodeDedupKey("")
	case "key:a":
		n, _ = dedupkey.EncodeDedupKey("a")
	case "key:unicode":
		n, _ = dedupkey.EncodeDedupKey("schlüssel-鍵")
	default:
		panic("unknown ext val " + e.Val)
	}
	return graphsync.ExtensionData{Name: graphsync.ExtensionName(e.Name), Data: n}
}

func extName(name graphsync.ExtensionName, n datamodel.Node) absExt {
	e := absExt{Name: string(name), Val: "?"}
	if n == nil {
		e.Val = "null"
		return e
	}
	switch name {
	case graphsync.ExtensionsDoNotSendFirstBlocks:
		v, err := donotsendfirstblocks.DecodeDoNotSendFirstBlocks(n)
		if err == nil {
			switch v {
			case 0, 1:
				e.Val = fmt.Sprintf("dnsf:%d", v)
			case 4294967296:
				e.Val = "dnsf:big"
			default:
				e.Val = fmt.Sprintf("dnsf:%d", v)
			}
		}
		return e
	case graphsync.ExtensionDoNotSendCIDs:
		set, err := cidset.DecodeCidSet(n)
		if err == nil {
			ok := true
			names := []string{"v1-raw", "v0-dagpb", "v1-dagcbor"}
			for i := 0; i < set.Len(); i++ {
				if i >= 3 || !set.Has(wireCids[names[i]]) {
					ok = false
				}
			}
			if ok {
				e.Val = fmt.Sprintf("dnsc:%d", set.Len())
			}
		}
		return e
	case graphsync.ExtensionDeDupByKey:
		k, err := dedupkey.DecodeDedupKey(n)
		if err == nil {
			switch k {
			case "", "a":
				e.Val = "key:" + k
			case "schlüssel-鍵":
				e.Val = "key:unicode"
			}
		}
		return e
	}
	switch n.Kind() {
	case datamodel.Kind_Null:
		e.Val = "null"
	case datamodel.Kind_String:
		if s, _ := n.AsString(); s == "payload" {
			e.Val = "string"
		}
	case datamodel.Kind_Int:
		if v, _ := n.AsInt(); v == -5 {
			e.Val = "int-neg"
		}
	case datamodel.Kind_Map:
		if ipld.DeepEqual(n, nestedNode) {
			e.Val = "nested"
		}
	case datamodel.Kind_Bytes:
		if b, _ := n.AsBytes(); bytes.Equal(b, []byte{0, 1, 2, 255}) {
			e.Val = "bytes"
		}
	case datamodel.Kind_List:
		if n.Length() == 0 {
			e.Val = "list-empty"
		}
	}
	return e
}

func buildMsg(a absMsg) gsmsg.GraphSyncMessage {
	initWire()
	reqs := map[graphsync.RequestID]gsmsg.GraphSyncRequest{}
	for _, r := range a.Reqs {
		id := wireIDs[r.ID]
		var exts []graphsync.ExtensionData
		for _, e := range r.Ext {
			exts = append(exts, extData(e))
		}
		switch r.Type {
		case "New":
			reqs[id] = gsmsg.NewRequest(id, wireCids[r.Root], wireSels[r.Sel], wirePrios[r.Prio], exts...)
		case "Update":
			reqs[id] = gsmsg.NewUpdateRequest(id, exts...)
		case "Cancel":
			reqs[id] = gsmsg.NewCancelRequest(id)
		}
	}
	resps := map[graphsync.RequestID]gsmsg.GraphSyncResponse{}
	for _, r := range a.Resps {
		id := wireIDs[r.ID]
		var exts []graphsync.ExtensionData
		for _, e := range r.Ext {
			exts = append(exts, extData(e))
		}
		var md []gsmsg.GraphSyncLinkMetadatum
		for _, m := range r.Md {
			md = append(md, gsmsg.GraphSyncLinkMetadatum{Link: wireCids[m.L], Action: graphsync.LinkAction(m.A)})
		}
		resps[id] = gsmsg.NewResponse(id, graphsync.ResponseStatusCode(r.Status), md, exts...)
	}
	blks := map[cid.Cid]blocks.Block{}
	for _, b := range a.Blocks {
		blks[wireBlocks[b].Cid()] = wireBlocks[b]
	}
	return gsmsg.NewMessage(reqs, resps, blks)
}

func idNum(id graphsync.RequestID) int {
	for k, v := range wireIDs {
		if v == id {
			return k
		}
	}
	return -1
}

func projectMsg(m gsmsg.GraphSyncMessage) absMsg {
	initWire()
	out := absMsg{Reqs: []absReq{}, Resps: []absResp{}, Blocks: []string{}}
	for _, r := range m.Requests() {
		ar := absReq{ID: idNum(r.ID()), Ext: []absExt{}, Prio: "0"}
		switch r.Type() {
		case graphsync.RequestTypeNew:
			ar.Type = "New"
			ar.Root = wireCidNames[r.Root()]
			if ar.Root == "" {
				ar.Root = "?" + r.Root().String()
			}
			for n, s := range wireSels {
				if r.Selector() != nil && ipld.DeepEqual(r.Selector(), s) {
					ar.Sel = n
				}
			}
			ar.Prio = "?"
			for n, p := range wirePrios {
				if p == r.Priority() {
					ar.Prio = n
				}
			}
		case graphsync.RequestTypeUpdate:
			ar.Type = "Update"
		case graphsync.RequestTypeCancel:
			ar.Type = "Cancel"
		default:
			ar.Type = "?" + string(r.Type())
		}
		for _, n := range r.ExtensionNames() {
			d, _ := r.Extension(n)
			ar.Ext = append(ar.Ext, extName(n, d))
		}
		sort.Slice(ar.Ext, func(i, j int) bool { return ar.Ext[i].Name < ar.Ext[j].Name })
		out.Reqs = append(out.Reqs, ar)
	}
	sort.Slice(out.Reqs, func(i, j int) bool { return out.Reqs[i].ID < out.Reqs[j].ID })
	for _, r := range m.Responses() {
		ar := absResp{ID: idNum(r.RequestID()), Status: int(r.Status()), Md: []absMd{}, Ext: []absExt{}}
		r.Metadata().Iterate(func(c cid.Cid, a graphsync.LinkAction) {
			n := wireCidNames[c]
			if n == "" {
				n = "?" + c.String()
			}
			ar.Md = append(ar.Md, absMd{n, string(a)})
		})
		for _, n := range r.ExtensionNames() {
			d, _ := r.Extension(n)
			ar.Ext = append(ar.Ext, extName(n, d))
		}
		sort.Slice(ar.Ext, func(i, j int) bool { return ar.Ext[i].Name < ar.Ext[j].Name })
		out.Resps = append(out.Resps, ar)
	}
	sort.Slice(out.Resps, func(i, j int) bool { return out.Resps[i].ID < out.Resps[j].ID })
	for _, b := range m.Blocks() {
		n := wireBlockNames[b.Cid()]
		if n == "" || !bytes.Equal(b.RawData(), wireBlocks[n].RawData()) {
			n = "?" + b.Cid().String()
		}
		out.Blocks = append(out.Blocks, n)
	}
	sort.Strings(out.Blocks)
	return out
}

// wireRT: every input line is a stream (list of abstract messages).  Encode all with ToNet into
// one buffer, decode one by one with FromMsgReader, report what came out.
func wireRT(args []string) error {
	fs := flag.NewFlagSet("wire-rt", flag.ExitOnError)
	in := fs.String("in", "", "")
	out := fs.String("out", "", "")
	fs.Parse(args)
	f, err := os.Open(*in)
	if err != nil {
		return err
	}
	defer f.Close()
	w, err := os.Create(*out)
	if err != nil {
		return err
	}
	defer w.Close()
	bw := bufio.NewWriter(w)
	defer bw.Flush()
	enc := json.NewEncoder(bw)
	sc := bufio.NewScanner(f)
	sc.Buffer(make([]byte, 1<<20), 1<<26)
	mhd := gsmsgv2.NewMessageHandler()
	id := 0
	for sc.Scan() {
		var stream []absMsg
		if err := json.Unmarshal(sc.Bytes(), &stream); err != nil {
			return err
		}
		id++
		var buf bytes.Buffer
		encErr := ""
		for _, a := range stream {
			if err := mhd.ToNet(peer.ID("p"), buildMsg(a), &buf); err != nil {
				encErr = err.Error()
			}
		}
		var got []absMsg
		decErr := ""
		total := buf.Len()
		if len(stream) == 1 {
			// single message: also exercise FromNet
			m, err := mhd.FromNet(peer.ID("p"), bytes.NewReader(buf.Bytes()))
			if err != nil {
				decErr = "FromNet: " + err.Error()
			} else if !jsonEq(projectMsg(m), func() absMsg { m2, _ := mhd.FromNet(peer.ID("p"), bytes.NewReader(buf.Bytes())); return projectMsg(m2) }()) {
				decErr = "FromNet not deterministic"
			}
		}
		rd := msgio.NewVarintReaderSize(&buf, p2pnet.MessageSizeMax)
		for {
			m, err := mhd.FromMsgReader(peer.ID("p"), rd)
			if err == io.EOF {
				break
			}
			if err != nil {
				decErr = err.Error()
				break
			}
			got = append(got, projectMsg(m))
			if len(got) > len(stream)+2 {
				decErr = "reader yields more messages than were written"
				break
			}
		}
		if got == nil {
			got = []absMsg{}
		}
		enc.Encode(map[string]any{"id": id, "sent": stream, "got": got, "encErr": encErr, "decErr": decErr, "bytes": total})
	}
	return nil
}

func jsonEq(a, b any) bool {
	x, _ := json.Marshal(a)
	y, _ := json.Marshal(b)
	return bytes.Equal(x, y)
}
