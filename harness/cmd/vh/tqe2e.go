package main

import (
	"context"
	"encoding/json"
	"flag"
	"fmt"
	"os"
	"sync"
	"time"

	"github.com/ipfs/go-cid"
	gsimpl "github.com/ipfs/go-graphsync/impl"
	cidlink "github.com/ipld/go-ipld-prime/linking/cid"
	"github.com/libp2p/go-libp2p/core/peer"

	"verifharness/dagreal"
	"verifharness/verifnet"
)

func init() { register("tq-e2e", tqE2E) }

// concurrency gate: every request's first storage read parks until released; the number parked at
// once is the number of request executions running at once.
type concGate struct {
	mu      sync.Mutex
	owner   map[cid.Cid]string // root cid -> "peer/req"
	held    map[string]chan struct{}
	seen    map[string]bool
	max     int
	maxPeer map[string]int
	open    bool
}

func (g *concGate) onRead(c cid.Cid) {
	g.mu.Lock()
	id, ok := g.owner[c]
	if !ok || g.seen[id] || g.open {
		g.mu.Unlock()
		return
	}
	g.seen[id] = true
	ch := make(chan struct{})
	g.held[id] = ch
	if len(g.held) > g.max {
		g.max = len(g.held)
	}
	per := map[string]int{}
	for k := range g.held {
		per[k[:1]]++
	}
	for p, n := range per {
		if n > g.maxPeer[p] {
			g.maxPeer[p] = n
		}
	}
	g.mu.Unlock()
	<-ch
}

func (g *concGate) releaseOne() bool {
	g.mu.Lock()
	defer g.mu.Unlock()
	for id, ch := range g.held {
		close(ch)
		delete(g.held, id)
		return true
	}
	return false
}

func tqE2E(args []string) error {
	fs := flag.NewFlagSet("tq-e2e", flag.ExitOnError)
	_ = fs.Int64("seed", 1, "")
	fs.Parse(args)
	type cfg struct {
		side       string // resp | req
		workers    int
		perPeer    int
		peers      int
		perPeerReq int
	}
	cfgs := []cfg{{"resp", 2, 0, 2, 3}, {"resp", 3, 1, 3, 2}, {"resp", 1, 0, 2, 2}, {"req", 2, 0, 2, 3}, {"req", 1, 0, 1, 3}}
	var problems []map[string]any
	maxSeen := map[string]int{}
	for ci, c := range cfgs {
		ctx, cancel := context.WithCancel(context.Background())
		net := verifnet.New()
		gate := &concGate{owner: map[cid.Cid]string{}, held: map[string]chan struct{}{}, seen: map[string]bool{}, maxPeer: map[string]int{}}
		sel := dagreal.AllSelector(10)
		total := c.peers * c.perPeerReq
		done := make(chan string, total)
		mk := func(label string) *dagreal.DAG {
			t := dagreal.Tree{N: 2, Par: []int{0, 0, 1}, Dep: []int{0, 0, 1}, Cid: []int{0, 1, 2}}
			d, _ := dagreal.Build(t, label)
			return d
		}
		if c.side == "resp" {
			// one responder with limits; several requestor peers each sending several requests
			stS := dagreal.NewStore(nil)
			stS.OnRead = func(cc cid.Cid, ok bool) { gate.onRead(cc) }
			pS := peer.ID("S")
			opts := []gsimpl.Option{gsimpl.MaxInProgressIncomingRequests(uint64(c.workers))}
			if c.perPeer > 0 {
				opts = append(opts, gsimpl.MaxInProgressIncomingRequestsPerPeer(uint64(c.perPeer)))
			}
			gsimpl.New(ctx, net.Endpoint(ctx, pS), stS.LinkSystem(), opts...)
			for p := 0; p < c.peers; p++ {
				pn := string(rune('a' + p))
				gr := gsimpl.New(ctx, net.Endpoint(ctx, peer.ID("R-"+pn)), dagreal.NewStore(nil).LinkSystem())
				for r := 0; r < c.perPeerReq; r++ {
					id := fmt.Sprintf("%s/%d", pn, r)
					d := mk(fmt.Sprintf("e2e%d-%s", ci, id))
					for k, b := range d.Blocks {
						stS.Put(k, b)
					}
					gate.owner[d.Root] = id
					pr, er := gr.Request(ctx, pS, cidlink.Link{Cid: d.Root}, sel)
					go func(id string) {
						n := 0
						for pr != nil || er != nil {
							select {
							case _, ok := <-pr:
								if !ok {
									pr = nil
								} else {
									n++
								}
							case _, ok := <-er:
								if !ok {
									er = nil
								}
							}
						}
						if n > 0 {
							done <- id
						} else {
							done <- "!" + id
						}
					}(id)
				}
			}
		} else {
			// one requestor with an outgoing limit, requests to one full responder
			stS := dagreal.NewStore(nil)
			pS := peer.ID("S")
			gsimpl.New(ctx, net.Endpoint(ctx, pS), stS.LinkSystem())
			stR := dagreal.NewStore(nil)
			stR.OnRead = func(cc cid.Cid, ok bool) { gate.onRead(cc) }
			gr := gsimpl.New(ctx, net.Endpoint(ctx, peer.ID("R")), stR.LinkSystem(), gsimpl.MaxInProgressOutgoingRequests(uint64(c.workers)))
			for r := 0; r < total; r++ {
				id := fmt.Sprintf("a/%d", r)
				d := mk(fmt.Sprintf("e2e%d-%s", ci, id))
				for k, b := range d.Blocks {
					stS.Put(k, b)
				}
				gate.owner[d.Root] = id
				pr, er := gr.Request(ctx, pS, cidlink.Link{Cid: d.Root}, sel)
				go func(id string) {
					n := 0
					for pr != nil || er != nil {
						select {
						case _, ok := <-pr:
							if !ok {
								pr = nil
							} else {
								n++
							}
						case _, ok := <-er:
							if !ok {
								er = nil
							}
						}
					}
					if n > 0 {
						done <- id
					} else {
						done <- "!" + id
					}
				}(id)
			}
		}
		// let the held set grow as far as the node allows, then release one by one (so later requests get their turn while others are held)
		finished := 0
		deadline := time.After(20 * time.Second)
		timedOut := false
		for finished < total && !timedOut {
			time.Sleep(120 * time.Millisecond)
			gate.releaseOne()
			for drained := false; !drained; {
				select {
				case id := <-done:
					finished++
					if id[0] == '!' {
						problems = append(problems, map[string]any{"kind": "request-delivered-nothing", "cfg": c.side, "id": id})
					}
				case <-deadline:
					timedOut = true
					drained = true
				default:
					drained = true
				}
			}
		}
		gate.mu.Lock()
		mx, mp := gate.max, 0
		for _, n := range gate.maxPeer {
			if n > mp {
				mp = n
			}
		}
		gate.mu.Unlock()
		key := fmt.Sprintf("%s-w%d-p%d", c.side, c.workers, c.perPeer)
		maxSeen[key] = mx
		if mx > c.workers {
			problems = append(problems, map[string]any{"kind": "more-executions-than-configured", "cfg": key, "seen": mx, "limit": c.workers})
		}
		if c.perPeer > 0 && mp > c.perPeer {
			problems = append(problems, map[string]any{"kind": "per-peer-limit-exceeded", "cfg": key, "seen": mp, "limit": c.perPeer})
		}
		if mx < c.workers && total >= c.workers && (c.perPeer == 0 || c.perPeer*c.peers >= c.workers) {
			problems = append(problems, map[string]any{"kind": "harness-never-saw-the-limit-reached", "cfg": key, "seen": mx, "limit": c.workers})
		}
		if finished < total {
			problems = append(problems, map[string]any{"kind": "queued-request-never-ran", "cfg": key, "finished": finished, "total": total})
		}
		cancel()
	}
	if problems == nil {
		problems = []map[string]any{}
	}
	return json.NewEncoder(os.Stdout).Encode(map[string]any{"runs": len(cfgs), "maxSeen": maxSeen, "problems": problems})
}
