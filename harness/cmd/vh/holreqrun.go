package main

import (
	"context"
	"encoding/json"
	"flag"
	"fmt"
	"os"
	"strings"
	"sync"
	"time"

	"github.com/ipfs/go-graphsync"
	gsimpl "github.com/ipfs/go-graphsync/impl"
	gsmsg "github.com/ipfs/go-graphsync/message"
	cidlink "github.com/ipld/go-ipld-prime/linking/cid"
	"github.com/ipld/go-ipld-prime/node/basicnode"
	"github.com/libp2p/go-libp2p/core/peer"

	"verifharness/dagreal"
	"verifharness/verifnet"
)

// holreq-run: requestor half of C25 (HeadOfLineReq.tla).  A real requestor R with W executor workers, a real responder B
// and a peer A to which every send of R blocks for ever.  B's request runs first; at its first block the incoming block
// hook does what the scenario says (nothing / send an update to B / pause, resumed at once) and NA requests to A are
// started; B's request must complete within the deadline and R must go on answering PeerState.

func init() { register("holreq-run", holReqRun) }

type holReqObs struct {
	BDone          bool     `json:"bDone"`
	BNodes         int      `json:"bNodes"`
	BErrs          []string `json:"bErrs"`
	WantNodes      int      `json:"wantNodes"`
	LoopResponsive bool     `json:"loopResponsive"`
	AStalledSends  int      `json:"aStalledSends"`
}

func holReqRun(args []string) error {
	fs := flag.NewFlagSet("holreq-run", flag.ExitOnError)
	hook := fs.String("hook", "none", "")
	na := fs.Int("na", 3, "")
	w := fs.Int("w", 2, "")
	fs.Parse(args)
	ctx, cancel := context.WithCancel(context.Background())
	defer cancel()
	mk := func(label string, n int) *dagreal.DAG {
		t := dagreal.Tree{N: n, Par: make([]int, n+1), Dep: make([]int, n+1), Cid: make([]int, n+1)}
		for i := 1; i <= n; i++ {
			t.Par[i], t.Dep[i], t.Cid[i] = i-1, i-1, 2*i
		}
		d, _ := dagreal.Build(t, label+strings.Repeat("y", 100))
		return d
	}
	dB := mk("holreq-b", 3)
	net := verifnet.New()
	pR, pA, pB := peer.ID("requestor-R"), peer.ID("stalled-A"), peer.ID("healthy-B")
	epR, epA, epB := net.Endpoint(ctx, pR), net.Endpoint(ctx, pA), net.Endpoint(ctx, pB)
	epA.SetDelegate(&rawRecv{})
	var mu sync.Mutex
	stalled := 0
	holdB := make(chan struct{}) // B's responses after the first block wait until the requests to A are under way
	first := true
	net.SetPolicy(func(from, to peer.ID, n int, m gsmsg.GraphSyncMessage) verifnet.Outcome {
		if from == pR && to == pA {
			mu.Lock()
			stalled++
			mu.Unlock()
			return verifnet.Stall
		}
		if from == pB && to == pR && len(m.Blocks()) > 0 {
			mu.Lock()
			f := first
			first = false
			mu.Unlock()
			if !f && *hook != "pause" {
				select {
				case <-holdB:
				case <-ctx.Done():
				}
			}
		}
		return verifnet.Deliver
	})
	stB := dagreal.NewStore(dB.Blocks)
	gsB := gsimpl.New(ctx, epB, stB.LinkSystem())
	gsB.RegisterIncomingRequestHook(func(p peer.ID, r graphsync.RequestData, ha graphsync.IncomingRequestHookActions) { ha.ValidateRequest() })
	// one block per message, so that B's exchange is still going on while A's requests pile up
	gsB.RegisterOutgoingBlockHook(func(p peer.ID, r graphsync.RequestData, b graphsync.BlockData, ha graphsync.OutgoingBlockHookActions) {
		time.Sleep(3 * time.Millisecond)
	})
	stR := dagreal.NewStore(nil)
	gsR := gsimpl.New(ctx, epR, stR.LinkSystem(), gsimpl.MaxInProgressOutgoingRequests(uint64(*w)), gsimpl.SendMessageTimeout(time.Hour)).(*gsimpl.GraphSync)
	sel := dagreal.AllSelector(10)
	var bID graphsync.RequestID
	var once sync.Once
	atFirst := make(chan struct{})
	gsR.RegisterIncomingBlockHook(func(p peer.ID, r graphsync.ResponseData, b graphsync.BlockData, ha graphsync.IncomingBlockHookActions) {
		if p != pB {
			return
		}
		fire := false
		once.Do(func() { fire = true; bID = r.RequestID() })
		if !fire {
			return
		}
		switch *hook {
		case "update":
			ha.UpdateRequestWithExtensions(graphsync.ExtensionData{Name: graphsync.ExtensionName("verif/holreq"), Data: basicnode.NewString("u")})
		case "pause":
			ha.PauseRequest()
		}
		close(atFirst)
	})
	_, refNodes, _ := dagreal.Walk(dB.Root, sel, dB.Blocks)
	obs := holReqObs{WantNodes: len(refNodes), BErrs: []string{}}
	bctx, bcancel := context.WithTimeout(ctx, 3*time.Second)
	defer bcancel()
	prog, errs := gsR.Request(bctx, pB, cidlink.Link{Cid: dB.Root}, sel)
	done := make(chan struct{})
	go func() {
		defer close(done)
		for prog != nil || errs != nil {
			select {
			case _, ok := <-prog:
				if !ok {
					prog = nil
				} else {
					mu.Lock()
					obs.BNodes++
					mu.Unlock()
				}
			case e, ok := <-errs:
				if !ok {
					errs = nil
				} else {
					mu.Lock()
					obs.BErrs = append(obs.BErrs, fmt.Sprintf("%T: %v", e, e))
					mu.Unlock()
				}
			}
		}
	}()
	select {
	case <-atFirst:
	case <-time.After(2 * time.Second):
	}
	if *hook == "pause" {
		// B's request gives its worker back when the pause takes effect; A's requests are started after that
		for t := time.Now(); time.Since(t) < time.Second; time.Sleep(time.Millisecond) {
			if gsR.PeerState(pB).OutgoingState.RequestStates[bID] == graphsync.Paused {
				break
			}
		}
	}
	// the requests to the stalled peer
	for i := 0; i < *na; i++ {
		d := mk(fmt.Sprintf("holreq-a%d", i), 2)
		p2, e2 := gsR.Request(ctx, pA, cidlink.Link{Cid: d.Root}, sel)
		go func() {
			for p2 != nil || e2 != nil {
				select {
				case _, ok := <-p2:
					if !ok {
						p2 = nil
					}
				case _, ok := <-e2:
					if !ok {
						e2 = nil
					}
				}
			}
		}()
	}
	time.Sleep(20 * time.Millisecond)
	if *hook == "pause" {
		// the network is quiet by now (what B had in flight was dropped while the request was paused): the caller resumes
		time.Sleep(40 * time.Millisecond)
		cctx, cc := context.WithTimeout(ctx, time.Second)
		_ = gsR.Unpause(cctx, bID)
		cc()
	}
	close(holdB)
	select {
	case <-done:
		obs.BDone = bctx.Err() == nil
	case <-time.After(3500 * time.Millisecond):
	}
	ch := make(chan struct{})
	go func() { _ = gsR.PeerState(pB); close(ch) }()
	select {
	case <-ch:
		obs.LoopResponsive = true
	case <-time.After(time.Second):
	}
	mu.Lock()
	obs.AStalledSends = stalled
	mu.Unlock()
	return json.NewEncoder(os.Stdout).Encode(obs)
}
