// Package verifnet is a scripted in-process implementation of gsnet.GraphSyncNetwork for any
// number of nodes.  Each ordered pair of nodes is a FIFO link served by one delivery goroutine
// (like one libp2p stream handled by handleNewStream); every message passes through the real
// v2 wire codec; a per-link policy decides whether a send succeeds, fails or stalls; all
// traffic, connection-manager calls and connect attempts are recorded.
package verifnet

import (
	"bytes"
	"context"
	"errors"
	"fmt"
	"sync"
	"sync/atomic"

	gsmsg "github.com/ipfs/go-graphsync/message"
	gsmsgv2 "github.com/ipfs/go-graphsync/message/v2"
	gsnet "github.com/ipfs/go-graphsync/network"
	"github.com/libp2p/go-libp2p/core/peer"
)

// Outcome of one SendMsg attempt, chosen by the link policy.
type Outcome int

const (
	Deliver Outcome = iota // message reaches the destination's receiver (in order)
	Fail                   // SendMsg returns an error, nothing delivered
	Stall                  // SendMsg blocks until the link is released or ctx is done
	DropOK                 // SendMsg returns nil but nothing is delivered
)

// Sent is one recorded send attempt.
type Sent struct {
	Seq     int64
	From    peer.ID
	To      peer.ID
	Msg     gsmsg.GraphSyncMessage
	Outcome Outcome
}

// Policy decides the outcome of the n-th (1-based) send attempt on link from->to.
type Policy func(from, to peer.ID, n int, msg gsmsg.GraphSyncMessage) Outcome

type Net struct {
	mu      sync.Mutex
	nodes   map[peer.ID]*Endpoint
	policy  Policy
	log     []Sent
	seq     int64
	codec   bool
	inFly   int64      // messages accepted but not yet handed to (and returned from) the receiver
	OnSent  func(Sent) // optional observer, called after recording (outside the lock)
	connErr map[peer.ID]map[peer.ID]error
}

func New() *Net {
	return &Net{nodes: map[peer.ID]*Endpoint{}, codec: true, connErr: map[peer.ID]map[peer.ID]error{}}
}

// SetPolicy installs the send policy (nil = always deliver).
func (n *Net) SetPolicy(p Policy) { n.mu.Lock(); n.policy = p; n.mu.Unlock() }

// SetConnectError makes ConnectTo(from->to) fail with err (nil clears).
func (n *Net) SetConnectError(from, to peer.ID, err error) {
	n.mu.Lock()
	defer n.mu.Unlock()
	if n.connErr[from] == nil {
		n.connErr[from] = map[peer.ID]error{}
	}
	n.connErr[from][to] = err
}

// Log returns a copy of all recorded send attempts.
func (n *Net) Log() []Sent {
	n.mu.Lock()
	defer n.mu.Unlock()
	return append([]Sent(nil), n.log...)
}

// InFlight is the number of accepted messages not yet fully processed by their receiver.
func (n *Net) InFlight() int64 { return atomic.LoadInt64(&n.inFly) }

type link struct {
	qmu     sync.Mutex
	q       []gsmsg.GraphSyncMessage // unbounded FIFO
	wake    chan struct{}
	n       int
	release chan struct{}
}

func (l *link) push(m gsmsg.GraphSyncMessage) {
	l.qmu.Lock()
	l.q = append(l.q, m)
	l.qmu.Unlock()
	select {
	case l.wake <- struct{}{}:
	default:
	}
}

func (l *link) pop() (gsmsg.GraphSyncMessage, bool) {
	l.qmu.Lock()
	defer l.qmu.Unlock()
	if len(l.q) == 0 {
		return gsmsg.GraphSyncMessage{}, false
	}
	m := l.q[0]
	l.q = l.q[1:]
	return m, true
}

// Endpoint is one node's view of the network; it implements gsnet.GraphSyncNetwork.
type Endpoint struct {
	net   *Net
	id    peer.ID
	mu    sync.Mutex
	recv  gsnet.Receiver
	links map[peer.ID]*link // outgoing
	Conn  *ConnManager
	ctx   context.Context
}

func (n *Net) Endpoint(ctx context.Context, id peer.ID) *Endpoint {
	n.mu.Lock()
	defer n.mu.Unlock()
	e := &Endpoint{net: n, id: id, links: map[peer.ID]*link{}, Conn: &ConnManager{}, ctx: ctx}
	n.nodes[id] = e
	return e
}

func (e *Endpoint) ID() peer.ID { return e.id }

func (e *Endpoint) SetDelegate(r gsnet.Receiver) { e.mu.Lock(); e.recv = r; e.mu.Unlock() }

func (e *Endpoint) ConnectionManager() gsnet.ConnManager { return e.Conn }

func (e *Endpoint) ConnectTo(ctx context.Context, p peer.ID) error {
	e.net.mu.Lock()
	err := e.net.connErr[e.id][p]
	_, ok := e.net.nodes[p]
	e.net.mu.Unlock()
	if err != nil {
		return err
	}
	if !ok {
		return fmt.Errorf("verifnet: no such peer %s", p)
	}
	return nil
}

func (e *Endpoint) getLink(to peer.ID) (*link, *Endpoint, error) {
	e.net.mu.Lock()
	dst, ok := e.net.nodes[to]
	e.net.mu.Unlock()
	if !ok {
		return nil, nil, fmt.Errorf("verifnet: no such peer %s", to)
	}
	e.mu.Lock()
	defer e.mu.Unlock()
	l, ok := e.links[to]
	if !ok {
		l = &link{wake: make(chan struct{}, 1), release: make(chan struct{})}
		e.links[to] = l
		go func() {
			for {
				for {
					m, ok := l.pop()
					if !ok {
						break
					}
					dst.mu.Lock()
					r := dst.recv
					dst.mu.Unlock()
					if r != nil {
						r.ReceiveMessage(dst.ctx, e.id, m)
					}
					atomic.AddInt64(&e.net.inFly, -1)
				}
				select {
				case <-l.wake:
				case <-e.ctx.Done():
					return
				}
			}
		}()
	}
	return l, dst, nil
}

// ReleaseStalled lets every send currently stalled on link e->to proceed (they then fail).
func (e *Endpoint) ReleaseStalled(to peer.ID) {
	e.mu.Lock()
	l := e.links[to]
	if l != nil {
		close(l.release)
		l.release = make(chan struct{})
	}
	e.mu.Unlock()
}

var ErrSendFailed = errors.New("verifnet: scripted send failure")

func (e *Endpoint) send(ctx context.Context, to peer.ID, msg gsmsg.GraphSyncMessage) error {
	l, _, err := e.getLink(to)
	if err != nil {
		return err
	}
	e.mu.Lock()
	l.n++
	n := l.n
	rel := l.release
	e.mu.Unlock()
	e.net.mu.Lock()
	pol := e.net.policy
	codec := e.net.codec
	e.net.mu.Unlock()
	out := Deliver
	if pol != nil {
		out = pol(e.id, to, n, msg)
	}
	wire := msg
	if codec && (out == Deliver || out == DropOK) {
		var buf bytes.Buffer
		mh := gsmsgv2.NewMessageHandler()
		if err := mh.ToNet(to, msg, &buf); err != nil {
			return fmt.Errorf("verifnet: encode: %w", err)
		}
		wire, err = mh.FromNet(e.id, &buf)
		if err != nil {
			return fmt.Errorf("verifnet: decode: %w", err)
		}
	}
	e.net.mu.Lock()
	e.net.seq++
	s := Sent{Seq: e.net.seq, From: e.id, To: to, Msg: wire, Outcome: out}
	e.net.log = append(e.net.log, s)
	obs := e.net.OnSent
	if out == Deliver {
		// enqueue under the net lock so that the recorded order is the delivery order
		atomic.AddInt64(&e.net.inFly, 1)
		l.push(wire)
	}
	e.net.mu.Unlock()
	if obs != nil {
		obs(s)
	}
	switch out {
	case Deliver, DropOK:
		return nil
	case Fail:
		return ErrSendFailed
	case Stall:
		select {
		case <-rel:
			return ErrSendFailed
		case <-ctx.Done():
			return ctx.Err()
		case <-e.ctx.Done():
			return e.ctx.Err()
		}
	}
	return nil
}

func (e *Endpoint) SendMessage(ctx context.Context, p peer.ID, msg gsmsg.GraphSyncMessage) error {
	return e.send(ctx, p, msg)
}

type sender struct {
	e  *Endpoint
	to peer.ID
}

func (s *sender) SendMsg(ctx context.Context, m gsmsg.GraphSyncMessage) error {
	return s.e.send(ctx, s.to, m)
}
func (s *sender) Close() error { return nil }
func (s *sender) Reset() error { return nil }

func (e *Endpoint) NewMessageSender(ctx context.Context, p peer.ID, _ gsnet.MessageSenderOpts) (gsnet.MessageSender, error) {
	if err := e.ConnectTo(ctx, p); err != nil {
		return nil, err
	}
	return &sender{e, p}, nil
}

// NotifyConnected / NotifyDisconnected deliver connection notifications to this node's receiver.
func (e *Endpoint) NotifyConnected(p peer.ID) {
	e.mu.Lock()
	r := e.recv
	e.mu.Unlock()
	if r != nil {
		r.Connected(p)
	}
}
func (e *Endpoint) NotifyDisconnected(p peer.ID) {
	e.mu.Lock()
	r := e.recv
	e.mu.Unlock()
	if r != nil {
		r.Disconnected(p)
	}
}

// ConnManager records Protect/Unprotect calls.
type ConnManager struct {
	mu    sync.Mutex
	Calls []ConnCall
	live  map[string]int
}
type ConnCall struct {
	Protect bool
	Peer    peer.ID
	Tag     string
}

func (c *ConnManager) Protect(p peer.ID, tag string) {
	c.mu.Lock()
	defer c.mu.Unlock()
	c.Calls = append(c.Calls, ConnCall{true, p, tag})
	if c.live == nil {
		c.live = map[string]int{}
	}
	c.live[string(p)+"/"+tag]++
}
func (c *ConnManager) Unprotect(p peer.ID, tag string) bool {
	c.mu.Lock()
	defer c.mu.Unlock()
	c.Calls = append(c.Calls, ConnCall{false, p, tag})
	k := string(p) + "/" + tag
	if c.live[k] > 0 {
		c.live[k]--
		if c.live[k] == 0 {
			delete(c.live, k)
		}
	}
	return false
}

// Protected returns the (peer/tag) keys still protected.
func (c *ConnManager) Protected() []string {
	c.mu.Lock()
	defer c.mu.Unlock()
	var r []string
	for k := range c.live {
		r = append(r, k)
	}
	return r
}
