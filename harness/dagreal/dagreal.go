// Package dagreal turns abstract link trees (the input space of the Exchange specification) into
// real IPLD blocks and back: Build realises an abstract tree as dag-cbor/raw blocks; Walk runs
// go-ipld-prime's own traversal over a complete store and returns the ordered link visits
// (the abstract link tree of any real DAG + selector) and the node-level visit sequence.
package dagreal

import (
	"bytes"
	"fmt"
	"io"
	"strings"
	"sync"

	"github.com/ipfs/go-cid"
	"github.com/ipld/go-ipld-prime"
	"github.com/ipld/go-ipld-prime/codec/dagcbor"
	_ "github.com/ipld/go-ipld-prime/codec/raw"
	"github.com/ipld/go-ipld-prime/datamodel"
	"github.com/ipld/go-ipld-prime/fluent"
	"github.com/ipld/go-ipld-prime/linking"
	cidlink "github.com/ipld/go-ipld-prime/linking/cid"
	"github.com/ipld/go-ipld-prime/node/basicnode"
	"github.com/ipld/go-ipld-prime/traversal"
	"github.com/ipld/go-ipld-prime/traversal/selector"
	"github.com/ipld/go-ipld-prime/traversal/selector/builder"
	mh "github.com/multiformats/go-multihash"
)

// Tree is an abstract link tree: visits 1..N in traversal (pre)order; index 0 unused.
type Tree struct {
	N   int   `json:"n"`
	Par []int `json:"par"` // Par[i] = parent visit (0 for the root)
	Dep []int `json:"dep"` // path length of the link of visit i (root 0)
	Cid []int `json:"cid"` // label of the block at visit i (equal labels = same block)
}

type DAG struct {
	Root    cid.Cid
	Blocks  map[cid.Cid][]byte
	ByLabel map[int]cid.Cid
	LabelOf map[cid.Cid]int
}

func cidOf(data []byte, codec uint64) cid.Cid {
	h, _ := mh.Sum(data, mh.SHA2_256, -1)
	return cid.NewCidV1(codec, h)
}

// Build realises t.  A child at relative depth 1 is a direct link field, at relative depth 2 a
// link inside an inline map {"x": link}.  Leaves with odd label are raw blocks, others dag-cbor.
func Build(t Tree, salt string) (*DAG, error) {
	d := &DAG{Blocks: map[cid.Cid][]byte{}, ByLabel: map[int]cid.Cid{}, LabelOf: map[cid.Cid]int{}}
	kids := make([][]int, t.N+1)
	for i := 2; i <= t.N; i++ {
		kids[t.Par[i]] = append(kids[t.Par[i]], i)
	}
	var build func(i int) (cid.Cid, error)
	build = func(i int) (cid.Cid, error) {
		lab := t.Cid[i]
		if c, ok := d.ByLabel[lab]; ok {
			return c, nil
		}
		if len(kids[i]) > 9 {
			return cid.Undef, fmt.Errorf("too many children")
		}
		var data []byte
		var codec uint64
		if len(kids[i]) == 0 && lab%2 == 1 && i != 1 {
			data = []byte(fmt.Sprintf("raw-leaf-%s-%d", salt, lab))
			codec = cid.Raw
		} else {
			type kc struct {
				rel int
				c   cid.Cid
			}
			var ks []kc
			for _, k := range kids[i] {
				c, err := build(k)
				if err != nil {
					return cid.Undef, err
				}
				ks = append(ks, kc{t.Dep[k] - t.Dep[i], c})
			}
			n := fluent.MustBuildMap(basicnode.Prototype.Map, int64(len(ks)+1), func(ma fluent.MapAssembler) {
				for j, k := range ks {
					key := fmt.Sprintf("c%d", j)
					switch k.rel {
					case 1:
						ma.AssembleEntry(key).AssignLink(cidlink.Link{Cid: k.c})
					case 2:
						ma.AssembleEntry(key).CreateMap(1, func(ia fluent.MapAssembler) {
							ia.AssembleEntry("x").AssignLink(cidlink.Link{Cid: k.c})
						})
					default:
						panic(fmt.Sprintf("unsupported relative depth %d", k.rel))
					}
				}
				ma.AssembleEntry("id").AssignString(fmt.Sprintf("%s-%d", salt, lab))
			})
			var buf bytes.Buffer
			if err := dagcbor.Encode(n, &buf); err != nil {
				return cid.Undef, err
			}
			data = buf.Bytes()
			codec = cid.DagCBOR
		}
		c := cidOf(data, codec)
		d.Blocks[c] = data
		d.ByLabel[lab] = c
		d.LabelOf[c] = lab
		return c, nil
	}
	defer func() { recover() }()
	r, err := build(1)
	if err != nil {
		return nil, err
	}
	d.Root = r
	return d, nil
}

// AllSelector explores everything recursively up to the given depth limit.
func AllSelector(limit int64) ipld.Node {
	ssb := builder.NewSelectorSpecBuilder(basicnode.Prototype.Any)
	return ssb.ExploreRecursive(selector.RecursionLimitDepth(limit), ssb.ExploreAll(ssb.ExploreRecursiveEdge())).Node()
}

type Visit struct {
	Idx  int     `json:"idx"`
	Path string  `json:"path"`
	Dep  int     `json:"dep"`
	Cid  cid.Cid `json:"-"`
	Par  int     `json:"par"`
}

type NodeVisit struct {
	Path      string `json:"p"`
	BlockPath string `json:"b"` // path of the link of the enclosing block ("" = root block)
}

// Store is a concurrency-safe in-memory block store with a recording LinkSystem.
type Store struct {
	mu     sync.Mutex
	Blocks map[cid.Cid][]byte
	Reads  []cid.Cid  // successful and failed read attempts, in order
	Writes []WriteRec // committed writes, in order
	OnRead func(lnk cid.Cid, ok bool)
}
type WriteRec struct {
	Link cid.Cid
	Data []byte
}

func NewStore(blocks map[cid.Cid][]byte) *Store {
	s := &Store{Blocks: map[cid.Cid][]byte{}}
	for k, v := range blocks {
		s.Blocks[k] = v
	}
	return s
}

func (s *Store) Has(c cid.Cid) bool {
	s.mu.Lock()
	defer s.mu.Unlock()
	_, ok := s.Blocks[c]
	return ok
}
func (s *Store) Put(c cid.Cid, b []byte) { s.mu.Lock(); s.Blocks[c] = b; s.mu.Unlock() }
func (s *Store) Cids() []cid.Cid {
	s.mu.Lock()
	defer s.mu.Unlock()
	r := make([]cid.Cid, 0, len(s.Blocks))
	for c := range s.Blocks {
		r = append(r, c)
	}
	return r
}
func (s *Store) WritesCopy() []WriteRec {
	s.mu.Lock()
	defer s.mu.Unlock()
	return append([]WriteRec(nil), s.Writes...)
}
func (s *Store) NReads() int { s.mu.Lock(); defer s.mu.Unlock(); return len(s.Reads) }

func (s *Store) LinkSystem() ipld.LinkSystem {
	ls := cidlink.DefaultLinkSystem()
	ls.TrustedStorage = true
	ls.StorageReadOpener = func(lctx linking.LinkContext, l datamodel.Link) (io.Reader, error) {
		c := l.(cidlink.Link).Cid
		s.mu.Lock()
		b, ok := s.Blocks[c]
		s.Reads = append(s.Reads, c)
		cb := s.OnRead
		s.mu.Unlock()
		if cb != nil {
			cb(c, ok)
		}
		if !ok {
			return nil, fmt.Errorf("block not found: %s", c)
		}
		return bytes.NewReader(b), nil
	}
	ls.StorageWriteOpener = func(lctx linking.LinkContext) (io.Writer, linking.BlockWriteCommitter, error) {
		var buf bytes.Buffer
		return &buf, func(l datamodel.Link) error {
			c := l.(cidlink.Link).Cid
			data := append([]byte(nil), buf.Bytes()...)
			s.mu.Lock()
			s.Blocks[c] = data
			s.Writes = append(s.Writes, WriteRec{c, data})
			s.mu.Unlock()
			return nil
		}, nil
	}
	return ls
}

// Walk runs go-ipld-prime's traversal from root with sel over store, as graphsync's traverser
// does (root loaded first with an empty path).  Missing blocks are skipped.
func Walk(root cid.Cid, sel ipld.Node, blocks map[cid.Cid][]byte) ([]Visit, []NodeVisit, error) {
	var visits []Visit
	var nodes []NodeVisit
	ls := cidlink.DefaultLinkSystem()
	ls.TrustedStorage = true
	ls.StorageReadOpener = func(lctx linking.LinkContext, l datamodel.Link) (io.Reader, error) {
		c := l.(cidlink.Link).Cid
		p := lctx.LinkPath.String()
		v := Visit{Idx: len(visits) + 1, Path: p, Dep: lctx.LinkPath.Len(), Cid: c}
		// parent = visit with the longest proper-prefix path
		best := 0
		for _, o := range visits {
			if o.Path == "" && p != "" && best == 0 {
				best = o.Idx
			} else if o.Path != "" && strings.HasPrefix(p, o.Path+"/") && (best == 0 || len(o.Path) > len(visits[best-1].Path)) {
				best = o.Idx
			}
		}
		v.Par = best
		visits = append(visits, v)
		b, ok := blocks[c]
		if !ok {
			return nil, traversal.SkipMe{}
		}
		return bytes.NewReader(b), nil
	}
	chooser := func(l datamodel.Link, _ linking.LinkContext) (datamodel.NodePrototype, error) {
		return basicnode.Prototype.Any, nil
	}
	rootNode, err := ls.Load(linking.LinkContext{}, cidlink.Link{Cid: root}, basicnode.Prototype.Any)
	if err != nil {
		return visits, nodes, nil
	}
	s, err := selector.ParseSelector(sel)
	if err != nil {
		return nil, nil, err
	}
	err = traversal.Progress{Cfg: &traversal.Config{LinkSystem: ls, LinkTargetNodePrototypeChooser: chooser}}.WalkAdv(rootNode, s,
		func(p traversal.Progress, n datamodel.Node, r traversal.VisitReason) error {
			nodes = append(nodes, NodeVisit{p.Path.String(), p.LastBlock.Path.String()})
			return nil
		})
	return visits, nodes, err
}

// TreeOf converts visits to an abstract Tree with labels numbered by first occurrence.
func TreeOf(visits []Visit) (Tree, map[cid.Cid]int) {
	t := Tree{N: len(visits), Par: make([]int, len(visits)+1), Dep: make([]int, len(visits)+1), Cid: make([]int, len(visits)+1)}
	lab := map[cid.Cid]int{}
	for _, v := range visits {
		if _, ok := lab[v.Cid]; !ok {
			lab[v.Cid] = len(lab) + 1
		}
		t.Par[v.Idx], t.Dep[v.Idx], t.Cid[v.Idx] = v.Par, v.Dep, lab[v.Cid]
	}
	return t, lab
}
