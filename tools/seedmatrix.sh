#!/bin/bash
# seedmatrix.sh [seed ...] : for every seeded change, apply it to /repo, run the quick check(s) of its property, revert.
# Writes /verif/seeded/MATRIX.txt (one line per seed x check).  /repo must be clean; nothing else may use /repo meanwhile.
cd /verif
out=/verif/seeded/MATRIX.txt
[ $# -eq 0 ] && : > $out
seeds=${@:-$(ls seeded | grep -v MATRIX | grep -v "^old-")}
trap 'git -C /repo checkout -- . ' EXIT INT TERM
for s in $seeds; do
  [ -f seeded/$s/patch.diff ] || continue
  prop=$(echo $s | sed 's/^R-//; s/-.*//; s/[a-z]$//')
  checks=$prop
  [ "$s" = "C21" ] && checks="C21 C23"
  if ! git -C /repo apply --check /verif/seeded/$s/patch.diff 2>/dev/null; then echo "$s - does-not-apply" >> $out; continue; fi
  git -C /repo apply /verif/seeded/$s/patch.diff
  for c in $checks; do
    t0=$(date +%s)
    ./check $c --tier quick > /tmp/seedmatrix.out 2>/dev/null; rc=$?
    sig=$(grep -m1 -A1 '^VIOLATION' /tmp/seedmatrix.out | tail -1 | cut -c1-160 | tr '\n' ' ')
    nv=$(grep -c '^VIOLATION' /tmp/seedmatrix.out)
    echo "$s $c rc=$rc violations_shown=$nv $(( $(date +%s) - t0 ))s $sig" >> $out
  done
  git -C /repo checkout -- .
done
git -C /repo status --short | grep -v testplans
