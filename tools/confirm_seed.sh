#!/bin/bash
# confirm_seed.sh <name> <out-dir> <pkg-dir-for-demo> <demo-run-regex>
# Confirms a seeded change independently in a fresh scratch worktree of /repo's HEAD:
#  (1) patch applies and builds, (2) full suite passes with the patch (demo absent),
#  (3) demo fails with the patch, (4) demo passes without it.  Writes <out-dir>/confirm.log
set -u
name=$1; out=$2; pkg=$3; rx=$4
wt=/tmp/seedconfirm-$name
export GOFLAGS=-mod=mod GOPROXY=off
log=$out/confirm.log; : > $log
git -C /repo worktree remove --force $wt 2>/dev/null
git -C /repo worktree add -q --detach $wt HEAD || exit 2
cd $wt
res=0
git apply $out/patch.diff || { echo "PATCH-DOES-NOT-APPLY" | tee -a $log; res=1; }
if [ $res = 0 ]; then
  go build ./... >>$log 2>&1 || { echo "BUILD-FAILS" | tee -a $log; res=1; }
fi
if [ $res = 0 ]; then
  go test -vet=off -count=1 -timeout 25m ./... > /tmp/suite_$name.log 2>&1
  if grep -q '^FAIL' /tmp/suite_$name.log; then
     # retry failing packages once (suite has timing flakes)
     pk=$(grep '^FAIL' /tmp/suite_$name.log | awk '{print $2}' | grep / | sort -u)
     echo "first run had failures in: $pk ; retrying" >> $log
     ok=1; for p in $pk; do go test -vet=off -count=1 $p >> /tmp/suite_$name.log 2>&1 || ok=0; done
     [ $ok = 1 ] && echo "SUITE-PASSES-WITH-PATCH (after flake retry)" | tee -a $log || { echo "SUITE-FAILS-WITH-PATCH" | tee -a $log; res=1; }
  else echo "SUITE-PASSES-WITH-PATCH" | tee -a $log; fi
  for f in $out/*_test.go; do cp $f $pkg/; done
  if go test -vet=off -count=1 -run "$rx" ./$pkg/ > $out/demo_with_patch.log 2>&1; then echo "DEMO-PASSES-WITH-PATCH(bad)" | tee -a $log; res=1; else echo "DEMO-FAILS-WITH-PATCH" | tee -a $log; fi
  git apply -R $out/patch.diff
  if go test -vet=off -count=1 -run "$rx" ./$pkg/ > $out/demo_without_patch.log 2>&1; then echo "DEMO-PASSES-WITHOUT-PATCH" | tee -a $log; else echo "DEMO-FAILS-WITHOUT-PATCH(bad)" | tee -a $log; res=1; fi
fi
cd /; git -C /repo worktree remove --force $wt
[ $res = 0 ] && echo "CONFIRMED $name" | tee -a $log || echo "NOT-CONFIRMED $name" | tee -a $log
exit $res
