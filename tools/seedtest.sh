#!/bin/bash
# seedtest.sh <seed-dir-name> <Cxx> [<Cyy> ...] : apply seeded patch to /repo, run quick checks, revert.
s=$1; shift
cd /verif
trap 'git -C /repo checkout -- . ' EXIT PIPE INT TERM
git -C /repo apply /verif/seeded/$s/patch.diff || { echo "cannot apply"; exit 2; }
for c in "$@"; do echo "== $c on seed $s"; ./check $c --tier ${TIER:-quick} > /tmp/seedtest.out 2>/dev/null; rc=$?; cut -c1-300 /tmp/seedtest.out | head -${LINES_MAX:-6}; echo "rc=$rc"; done
git -C /repo checkout -- .
git -C /repo status --short | grep -v testplans
