#!/usr/bin/env python3
"""Regenerates /verif/MANIFEST.json from the table below (single source of truth)."""
import json, os
V = os.path.dirname(os.path.dirname(os.path.abspath(__file__)))
ALL = ["C%02d" % i for i in range(1, 26)]
TB = "TLC 1.8 exhaustive within stated bounds; Go runtime; the harness driver; go-ipld-prime where DAGs are involved"
CHECKS = {
 "C13": dict(level="model_checking", design="4/C13",
   text="Allocator.tla checked exhaustively by TLC (limits, conservation ghosts, all-released-zero); every transition of the complete abstract state graph replayed on the real allocator at byte scales 1, 2^20, 2^62 (B1), and seeded random histories validated step by step by AllocatorTrace.tla (B3). Rejections are attributed to C13 when the observation-level judge AllocatorObs.tla finds limit/accounting damage.",
   note=TB + "; amounts are multiples of the byte scale in B1", technique="TLC exhaustive + state-graph replay + trace validation"),
 "C14": dict(level="model_checking", design="4/C14",
   text="Same machinery as C13; the Drain operator of Allocator.tla is the grant rule of C14 and NoGrantableWaiting/FifoPerPeer are checked by TLC in every state; any real step whose grants/failures differ from the model while accounting stays intact is a C14 violation.",
   note=TB, technique="TLC exhaustive + state-graph replay + trace validation"),
 "C18": dict(level="model_checking", design="4/C18",
   text="Publisher.tla (concurrent callers enqueueing under the RW lock, one FIFO processor) checked exhaustively by TLC: per (subscriber, topic) delivery equals the reference computed from the processed command history, in order, one close per ended subscription, liveness of processing. The sequential call graph is replayed on the real publisher (B1): every edge with a fence barrier, random walks, and burst walks without barriers comparing per (subscriber, topic) callback histories.",
   note=TB + "; fence-subscriber barrier relies on FIFO command processing; concurrent callers are covered by the model, the real code is driven from one goroutine", technique="TLC exhaustive + state-graph replay with random/burst walks"),
 "C19": dict(level="model_checking", design="4/C19",
   text="LinkTracker.tla checked exhaustively by TLC (refcount exactness, at most one live send per scope and block, no state when idle, no orphan scope); complete abstract graphs for 2-3 requests x 1-2 links x 1-2 dedup keys replayed through the exported ResponseAssembler stream API (B1) plus seeded random walks through the same TLC graphs: send decision (BlockSizeOnWire and real message content), block index, finish status, memory requested, tracker emptiness (verif accessor).",
   note=TB + "; call order of prepareQuery (dedup key, ignore list, skip count before traversal) assumed", technique="TLC exhaustive + state-graph replay with random walks"),
 "C08": dict(level="model_checking", design="4/C08",
   text="Selector.tla: TLC enumerates every selector AST with <= 4 (thorough 5) nodes over all explore clauses incl. interpret-as and recursion limits {none,1,100,101,10^6}, each an initial state whose single transition records the model verdict Valid(ast); the harness builds each as a selector-spec node, keeps the ones go-ipld-prime parses, and compares ValidateMaxRecursionDepth(.,100) with the verdict for all of them (exhaustive within the bound).",
   note=TB + "; well-formedness delegated to go-ipld-prime ParseSelector; conditions/stop-at/subset clauses not enumerated", technique="TLC enumeration of the bounded input space + per-case comparison with the real validator"),
 "C02": dict(level="model_checking", design="4/C02",
   text="Exchange.tla (requestor algorithm as implemented: traversal record, verifier replay, remote queue, path tracker, retry of last load; honest responder; named deviations) checked exhaustively by TLC with Dev={}: Complete/Thrifty/NoRetransmit/NoHang for every link tree, labeling with shared blocks, path-depth pattern and store split up to 3 (thorough 4) visits. B2: every TLC-enumerated case up to 4 (thorough 5) visits plus every combination of caller extensions up to 3 visits plus seeded random trees is realised as real blocks, exchanged between real GraphSync nodes on verifnet, and judged by TLC (ExchangeOracle.tla) against the reference Ref; non-conforming cases are classified by replaying them in the model with the code's deviations.",
   note=TB + "; explore-all recursive selector (other selectors only change the link tree); not demanded when the responder lacks the root (content-not-found) or the caller's extensions are untruthful", technique="TLC exhaustive model + TLC batch oracle over real executions of all enumerated cases"),
 "C03": dict(level="model_checking", design="4/C03",
   text="RespItems/RespStatus of Exchange.tla are the reference for the responder's wire output; for every enumerated case (all trees/labelings/responder stores up to 4 visits, all combinations of do-not-send-first-blocks 0..N+1, do-not-send-cids subsets and dedup key up to 3 visits, random larger ones) the real responder's metadata sequence, attached blocks and final status recorded on verifnet are compared by TLC with the reference.",
   note=TB + "; single request per peer in this check (cross-request dedup scopes are decided by C19's LinkTracker graph)", technique="TLC batch oracle over real executions of all enumerated cases"),
 "C24": dict(level="model_checking", design="4/C24",
   text="Thrifty and NoRetransmit invariants of Exchange.tla checked exhaustively; on every enumerated and random case the real wire is judged by TLC: no message at all when the requestor holds everything, otherwise do-not-send-first-blocks = locally loaded prefix (max with the caller's value), no block inside the skipped prefix or the ignore set, none twice.",
   note=TB, technique="TLC exhaustive model + TLC batch oracle over real executions"),
 "C07": dict(level="model_checking", design="4/C07",
   text="TLC enumerates every budget case (all link trees up to 4 (thorough 5) visits x requestor store {empty, full, full minus one block} x responder store {full, full minus one} x budget 1..N+2 x 8 placements: requestor/responder, global option, per-request hook, both with either one smaller); each is run on real GraphSync nodes and judged by ExchangeOracle.tla (C07OK): no budget failure when the traversal fits, otherwise exactly N link loads then a budget-exceeded error (requestor) or failure status with N metadata entries (responder).",
   note=TB + "; a missing block uses up one unit of go-ipld-prime's link budget, so a run is accepted if it satisfies the statement reading 'blocks needed' as link visits or as blocks loaded", technique="TLC enumeration of the bounded configuration space + TLC batch oracle over real executions"),
 "C01": dict(level="model_checking", design="4/C01",
   text="Exchange.tla with an adversarial responder (AdvInit: every script of up to 2 (thorough 3) metadata/block items over any label of the DAG or a foreign block, followed or not, genuine block attached or not) checked exhaustively by TLC for Sound. Every TLC-enumerated (tree, local store, script) case up to 3 visits is played by a raw scripted peer against the real requestor on verifnet in several delivery variants (message chunking, final status full/failed/none, forged bytes under the claimed CID), plus mutated honest transcripts of random larger trees; TLC (ExchangeOracle.tla C01OK) judges every run: every committed write hashes to its link and is the block of a visit the traversal loaded, store and deliveries stay inside the true link tree in traversal order, delivered node paths are a prefix of the reference node sequence.",
   note=TB + "; wrong bytes under a claimed CID are exercised through the real v2 codec, which recomputes CIDs", technique="TLC exhaustive model with adversary + TLC batch oracle over real executions of all enumerated scripts"),
 "C04": dict(level="model_checking", design="4/C04",
   text="Requestor.tla (request manager actor, executor, pause latch, loader online flag, blocking terminal-error hand-over, both collector goroutines, caller context, responder B and third peer C) checked exhaustively by TLC with per-thread weak fairness: liveness Terminates (terminal status or caller cancel ~> both channels closed), safety (client-cancel error, nothing after close). RequestorScripts.tla enumerates every environment script with <= 2 (thorough: sampled 3) environment events plus all block-hook decisions; each script is replayed on a real GraphSync requestor (gates in storage reads and block hooks hold the executor at the script's points; raw responder) and RequestorOracle.tla judges the observables at quiescence against the outcomes the verified design model allows: hang, missing/spurious/duplicate terminal error, missing cancel.",
   note=TB + "; K=2 blocks all at the responder; environment events only at points where the real executor can be held; 6 ms settle for 'executor waits for responder' points", technique="TLC exhaustive (safety+liveness) + replay of all TLC-enumerated environment scripts on the real code + TLC oracle"),
 "C09": dict(level="model_checking", design="4/C09",
   text="Action property ThirdPartyInert and invariant NoHookForThirdParty of Requestor.tla checked exhaustively; every enumerated script containing third-peer messages (any status, with/without data, response hook reacting ok/update/error, at every stable point) is replayed on the real requestor with a raw third peer: its responses must reach no response or block hook, nothing may be sent to it, and the outcome must equal that of the same script without the third peer's messages (baseline run), judged by RequestorOracle.tla.",
   note=TB + "; update requests to the responder are not compared (same-id requests coalesce in one outgoing message)", technique="TLC exhaustive action property + replay of all TLC-enumerated scripts with baseline comparison"),
 "C23": dict(level="model_checking", design="4/C23",
   text="Invariant StateAgreesWithQueue (Quiescent => queued<=>pending, running<=>active, paused/ended => no task) of Requestor.tla checked exhaustively, including a busy-worker start that keeps the request queued; at the quiescent end of every replayed environment script (cancels, pauses, unpauses, failures, hook errors, third-peer messages, at queued / pre-load / waiting / in-hook / idle points) the real node's PeerState(p).Diagnostics() must be empty, reported state and task-queue membership must agree and the connection protection of an ended request must be gone (RequestorOracle.tla C23Problems).",
   note=TB + "; requestor side only in this check; the responder side of the statement (Stats() of the allocator, incoming request states) is exercised by the C05/C15 checks", technique="TLC exhaustive invariant + observation at quiescence of all replayed TLC scripts"),
 "C11": dict(level="exploration", design="4/C11, 5",
   text="Wire.tla defines the bounded v2 message space (all request types, priorities incl. int32 extremes and zero, 4 root CID kinds, selectors, 18 extension sets incl. null/nested/bytes payloads and the three standard extensions with boundary values, 14 status codes, 15 metadata sequences incl. empty and repeated links, blocks with CIDv0/CIDv1/identity hash/empty data, composite messages, streams of 2-3 messages) and the equivalence a round trip must preserve; TLC enumerates all 7 476 elements, the harness runs each through ToNet/FromNet/FromMsgReader, and TLC (WireOracle.tla) judges equivalence and stream order.",
   note="TLC as enumerator and judge of a finite case analysis; byte-level fidelity of arbitrary leaf payloads is go-ipld-prime's DAG-CBOR codec (trusted); exhaustive only within the stated leaf sets", technique="TLC enumeration of the bounded message space + round trip through the real codec + TLC equivalence oracle"),
 "C12": dict(level="exploration", design="4/C12, 5",
   text="Partial: the 'all byte strings' quantifier cannot be enumerated by a TLA+ model. Covered: Wire.tla's catalogue of malformations of valid encodings (8 frame-level and 24 schema-level kinds, every cut position of the inner encoding and of the framed stream, every byte position overwritten with 2 (thorough 6) values) is enumerated by TLC; each is written to a fresh libp2p mocknet stream served by the real handleNewStream in a child process, followed by a control stream; TLC judges: no crash, later streams served, an error is a receive error with the stream reset, every proper truncation fails, a delivery carries only self-certified blocks and 16-byte request ids.",
   note="only this catalogue, not arbitrary byte strings (fuzzing territory, outside this technique family; stated in DESIGN.md section 5)", technique="TLC enumeration of a malformation catalogue + replay against the real stream handler + TLC oracle"),
 "C21": dict(level="model_checking", design="4/C21",
   text="TaskQueue.tla (peer comparator, per-peer limit, freeze on removal, thaw rounds, one-slot work signal, never-ending arrivals) checked by TLC: worker and per-peer limits as invariants, EventuallyRuns (a pending task is eventually started or removed) under weak fairness; TLC also produces the starvation lassos of the code's two named deviations. Every TLC-enumerated environment script (5 events, 1 worker; 4 events, 2 workers with per-peer limit 1) is replayed on the real WorkerTaskQueue with a gating executor; the two starvation classes are replayed as adaptive lassos (a peer keeps its queue fed for 8 ticker periods); an end-to-end run on real GraphSync nodes checks MaxInProgressIncomingRequests, ...PerPeer and MaxInProgressOutgoingRequests; TaskQueueOracle.tla judges all runs.",
   note=TB + "; go-peertaskqueue v0.8.3 modelled from its source; the unbounded 'eventually' is decided in the model, on real code a task must start within 8 ticker periods of continuous competing load", technique="TLC exhaustive (safety+liveness) + replay of TLC-enumerated scripts and counterexample-class lassos on the real queue + TLC oracle"),
}
NA_REASON = "not built yet in this round (check under construction; see DESIGN.md section 4 for the plan)"
def main():
    checks = []
    for pid in ALL:
        if pid not in CHECKS: continue
        c = CHECKS[pid]
        checks.append({"property_id": pid, "quick_cmd": "./check %s --tier quick" % pid,
            "thorough_cmd": "./check %s --tier thorough" % pid, "evidence_file": "evidence/%s.json" % pid,
            "replay_cmd_template": "./check %s --replay {path}" % pid, "engine": "tlc+vh",
            "level_claimed": {"category": c["level"], "text": c["text"], "design_ref": c["design"]},
            "level_note": c["note"], "technique": c["technique"]})
    hooks_commits = [l.strip() for l in open(os.path.join(V, "tools", "hook_commits.txt"))] if os.path.exists(os.path.join(V, "tools", "hook_commits.txt")) else []
    m = {"version": 1, "setup_cmd": "./check --setup",
         "hooks": {"guard": "verif", "enable": "go build -tags verif (harness module in /verif/harness with replace => /repo)",
                   "baseline_off_cmd": "cd /repo && GOFLAGS=-mod=mod GOPROXY=off go test -vet=off -count=1 -timeout 25m ./...",
                   "source_commits": hooks_commits, "add_only": True},
         "engines": [{"name": "tlc+vh", "path": "check", "serves_properties": sorted(CHECKS),
                      "kind_free_text": "TLA+ specs under specs/ checked by TLC; Go harness harness/cmd/vh drives the real code; Python driver lib/vlib.py"}],
         "checks": checks,
         "not_applicable": [{"property_id": p, "reason": NA.get(p, NA_REASON)} for p in ALL if p not in CHECKS],
         "notes": "See DESIGN.md. known-findings.txt lists recorded findings and fixed defects."}
    json.dump(m, open(os.path.join(V, "MANIFEST.json"), "w"), indent=1)
NA = {}
if __name__ == "__main__":
    main()
