"""C20: Concurrent.tla (two requests in flight over DAGs that share leaves: the responder's per-peer link
tracker with de-duplication buckets and do-not-send lists, one message queue whose messages carry both
requests' metadata and one shared block set, the requestor's stores) checked by TLC for AsAlone; the
cross-request de-duplication of the code as found is shown to break it.  ConcurrentScripts.tla
enumerates the interleavings (which responder traversal goes on, when the network delivers, when the
store commits) for every case; each script is replayed on real nodes with gates at those three points."""
import json, os, tempfile, shutil, random, subprocess
from concurrent.futures import ThreadPoolExecutor
from vlib import *


def scripts(L, maxlen):
    def produce():
        cfg = "ConcScripts_run_%d_%d.cfg" % (L, maxlen)
        p = os.path.join(SPECS, "Concurrent", cfg)
        with open(p, "w") as f:
            f.write('CONSTANTS L = %d MaxLen = %d Dev = {"CrossRequestDedup"}\nINIT SInit\nNEXT SNext\nINVARIANT Emit\nCHECK_DEADLOCK FALSE\n' % (L, maxlen))
        try:
            res = tlc_must_pass(run_tlc("Concurrent", "ConcurrentScripts.tla", cfg, workers=1, timeout=6000), "ConcurrentScripts")
        finally:
            os.remove(p)
        return {"scripts": [json.loads(x) for x in res.printed()], "distinct": res.distinct, "generated": res.generated}
    return spec_cache("Concurrent", "scripts-%d-%d" % (L, maxlen), produce)


def warm():
    scripts(2, 2)


def run(pid, tier, seed):
    v = Verdict(pid, tier, seed, "model_checking")
    tmp = tempfile.mkdtemp(prefix="vconc-")
    try:
        big = tier != "quick"
        r = tlc_must_pass(run_tlc("Concurrent", "Concurrent.tla", "ConcDesign.cfg" if big else "ConcDesign2.cfg", workers=NCPU, timeout=5000), "Concurrent design")
        states, trans = r.distinct, r.generated
        d = run_tlc("Concurrent", "Concurrent.tla", "ConcCode.cfg" if big else "ConcCode2.cfg", workers=NCPU, timeout=5000)
        if d.violation != "AsAlone":
            raise Infra("CrossRequestDedup no longer breaks AsAlone in Concurrent.tla: the model has become vacuous\n%s" % d.out[-1500:])
        sc = scripts(2, 2)
        states += sc["distinct"]
        trans += sc["generated"]
        allsc = sc["scripts"]
        rng = random.Random(seed)
        idx = list(range(len(allsc)))
        rng.shuffle(idx)
        if not big:
            # every case (chains, key, do-not-send list) at least a few times; scripts in which the model of the code as found loses a block too
            per_case, chosen = {}, []
            for i in idx:
                s = allsc[i]
                k = json.dumps([s["seqA"], s["seqB"], s["keyA"], s["ignA"]])
                if per_case.get(k, 0) < 14:
                    per_case[k] = per_case.get(k, 0) + 1
                    chosen.append(i)
            idx = chosen[:1600]
        cases = [dict(allsc[i], id=n + 1) for n, i in enumerate(idx)]
        # every second case in which A has its own store is also run with A paused on arrival by the responder's request hook and
        # resumed at once (no difference for the model: A's extensions were taken in on arrival)
        for c in cases:
            if c["keyA"] and c["id"] % 2 == 0:
                c["pauseA"] = True
        exe = build_harness("verif")
        env = goenv()
        env["GOLOG_LOG_LEVEL"] = "fatal"
        nshard = NCPU
        shards = [cases[i::nshard] for i in range(nshard)]

        def one(k):
            inp, outp = os.path.join(tmp, "in%d.ndjson" % k), os.path.join(tmp, "out%d.ndjson" % k)
            with open(inp, "w") as f:
                for c in shards[k]:
                    f.write(json.dumps(c) + "\n")
            cp = subprocess.run([exe, "conc-run", "--in", inp, "--out", outp], capture_output=True, text=True, env=env, timeout=7200)
            if cp.returncode != 0:
                raise Infra("conc-run failed: %s" % cp.stderr[-2000:])
            return [json.loads(l) for l in open(outp)]
        with ThreadPoolExecutor(max_workers=nshard) as ex:
            parts = list(ex.map(one, range(nshard)))
        recs = sorted((rec for p in parts for rec in p), key=lambda rec: rec["case"]["id"])
        # a script the real run did not follow (a gate not reached in time on a loaded machine) is run again on its own
        for attempt in range(2):
            redo = [rec["case"] for rec in recs if rec["obs"]["desync"]]
            if not redo:
                break
            shards[0] = redo
            for k in range(1, nshard):
                shards[k] = []
            again = {rec["case"]["id"]: rec for rec in one(0)}
            recs = [again.get(rec["case"]["id"], rec) if rec["obs"]["desync"] else rec for rec in recs]
        obsf = os.path.join(tmp, "obs.ndjson")
        with open(obsf, "w") as f:
            for rec in recs:
                f.write(json.dumps(rec) + "\n")
        ores = tlc_must_pass(run_tlc("Concurrent", "ConcurrentOracle.tla", "ConcOracle.cfg", workers=1, env={"VERIF_CASES": obsf}, timeout=7200), "ConcurrentOracle")
        verdicts = [json.loads(x) for x in ores.printed()]
        if len(verdicts) != len(cases):
            raise Infra("oracle judged %d of %d scripts" % (len(verdicts), len(cases)))
        states += ores.distinct
        n_desync = n_mismatch = 0
        for x in verdicts:
            rec = recs[x["id"] - 1]
            if x["desync"]:
                n_desync += 1
            elif not x["conforms"]:
                n_mismatch += 1
            for prob in x["c20"]:
                if x["desync"] and prob == "DEV_CrossRequestDedupTiming":
                    prob = "result-differs-from-running-alone"
                c = rec["case"]
                v.violation(prob, "A = root + leaves %s (key %r, do-not-send %s), B = root + leaves %s, script %s: %s; model of the code as found: %s" % (
                    c["seqA"], c["keyA"], c["ignA"], c["seqB"], " ".join("%s%s%s" % (e["ev"], e["r"] if e["r"] != "-" else "", e["c"] or "") for e in c["script"]),
                    json.dumps(rec["obs"])[:300], json.dumps(c["final"])), rec)
        cov = {"states": states, "transitions": trans, "traces_validated_against_impl": len(cases),
               "samples": [cases[len(cases) // 2], cases[len(cases) // 3]], "exhaustive": big,
               "scripts_enumerated": len(allsc), "scripts_total": len(cases), "spec_mismatch": n_mismatch, "desync": n_desync,
               "rule": "every behaviour of ConcurrentScripts.tla for two requests with up to 2 leaves each over 2 shared labels (every order, with / without own store and dedup key for A, "
                       "every do-not-send list of A) projected on its script of responder steps, deliveries and store commits; quick: a seeded sample covering every case; each replayed on real nodes"}
        if not v.new and not v.known_hit and n_desync + n_mismatch > len(cases) // 20:
            raise Infra("too many scripts the real code did not follow (%d desync, %d mismatch of %d): model or harness out of date" % (n_desync, n_mismatch, len(cases)))
        return v.finish(cov, ["TLC", "verifnet", "gates: responder storage read per request (before the attach decision), sender wake-up + network send, requestor write committer",
                              "the roots of both DAGs are exchanged before the script starts"])
    finally:
        shutil.rmtree(tmp, ignore_errors=True)
