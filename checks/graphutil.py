"""Shared helper for B1 checks: emit a TLC state graph for a Graph module + constants, replay it."""
import os, json, tempfile
from vlib import *


def emit_graph(module_dir, tla, consts, invariants, tmp, tag, timeout=1200, extra_cfg=""):
    cfg = "Graph_%s.cfg" % tag
    body = "CONSTANTS " + " ".join("%s = %s" % kv for kv in consts.items()) + "\n"
    body += "INIT GInit\nNEXT GNext\n"
    if invariants:
        body += "INVARIANTS " + " ".join(invariants) + "\n"
    body += "VIEW GView\nACTION_CONSTRAINT Emit\nCHECK_DEADLOCK FALSE\n" + extra_cfg
    p = os.path.join(SPECS, module_dir, cfg)
    with open(p, "w") as f:
        f.write(body)
    try:
        res = tlc_must_pass(run_tlc(module_dir, tla, cfg, workers=1, timeout=timeout), "%s %s" % (tla, tag))
    finally:
        os.remove(p)
    ef = os.path.join(tmp, "edges-%s.ndjson" % tag)
    n = 0
    with open(ef, "w") as f:
        for ln in res.out.splitlines():
            if ln.startswith('"{') and ln.endswith('"'):
                f.write(json.loads(ln) + "\n")
                n += 1
    return ef, res, n
