"""C11 / C12: Wire.  TLC enumerates the bounded v2 message space, multi-message streams and a
catalogue of malformations (Wire.tla); the harness runs every element through the real codec
(ToNet / FromNet / FromMsgReader) or through the real libp2p stream handler on mocknet; TLC
(WireOracle.tla) judges every observation.  Level: exploration (see DESIGN.md section 5)."""
import json, os, tempfile, shutil, subprocess
from vlib import *

GOENV = {"GOLOG_LOG_LEVEL": "error"}


def enum(cfg):
    res = tlc_must_pass(run_tlc("Wire", "Wire.tla", cfg, workers=1, timeout=3000), cfg)
    return [json.loads(x) for x in res.printed()], res


def judge(recfile, cfg):
    res = tlc_must_pass(run_tlc("Wire", "WireOracle.tla", cfg, workers=1, env={"VERIF_CASES": recfile}, timeout=6000), cfg)
    return [json.loads(x) for x in res.printed()], res


def run_c11(pid, tier, seed):
    v = Verdict(pid, tier, seed, "exploration")
    tmp = tempfile.mkdtemp(prefix="vwire-")
    try:
        msgs, r1 = enum("WireEnum.cfg")
        streams, r2 = enum("WireStreams.cfg")
        inp = os.path.join(tmp, "in.ndjson")
        with open(inp, "w") as f:
            for m in msgs:
                f.write(json.dumps([m]) + "\n")
            for s in streams:
                f.write(json.dumps(s) + "\n")
        outp = os.path.join(tmp, "out.ndjson")
        run_vh(["wire-rt", "--in", inp, "--out", outp], env=GOENV)
        verdicts, _ = judge(outp, "WireOracleRT.cfg")
        lines = open(outp).read().splitlines()
        if len(verdicts) != len(lines):
            raise Infra("oracle judged %d of %d" % (len(verdicts), len(lines)))
        for x in verdicts:
            if not x["ok"]:
                rec = json.loads(lines[x["id"] - 1])
                what = "decode-error" if rec["decErr"] else "encode-error" if rec["encErr"] else "not-equivalent"
                part = "request" if rec["sent"][0]["reqs"] else "response" if rec["sent"][0]["resps"] else "blocks"
                v.violation("%s:%s%s" % (what, part, ":stream" if len(rec["sent"]) > 1 else ""),
                            "sent %s got %s err %s" % (json.dumps(rec["sent"])[:400], json.dumps(rec["got"])[:400], rec["decErr"] or rec["encErr"]), rec)
        distinct = len({l.split('"sent":', 1)[1] for l in lines})
        cov = {"evaluations": len(lines), "distinct_nontrivial": distinct,
               "rule": "every message of Wire.tla's bounded space (all request types x 5 priorities incl. int32 extremes x 4 root CID kinds x 2 selectors x 18 extension sets incl. the three standard extensions with boundary payloads; "
                       "14 status codes x 15 metadata sequences x extension sets; block sets over raw/dag-cbor/CIDv0/identity/empty blocks; composite messages) and multi-message streams; all distinct, none trivial (the empty message is excluded)",
               "samples": [json.loads(lines[len(lines) // 2])["sent"]], "exhaustive": True, "messages": len(msgs), "streams": len(streams)}
        return v.finish(cov, ["TLC enumerates and judges equivalence", "byte-level fidelity of arbitrary leaf payloads is go-ipld-prime's DAG-CBOR codec (trusted)"])
    finally:
        shutil.rmtree(tmp, ignore_errors=True)


def run_c12(pid, tier, seed):
    v = Verdict(pid, tier, seed, "exploration")
    tmp = tempfile.mkdtemp(prefix="vwire-")
    try:
        cases, r1 = enum("WireMut.cfg")
        if tier == "quick":
            cases = [c for c in cases if c["kind"] != "byte-set" or c["val"] in (0, 255)]
        inp = os.path.join(tmp, "in.ndjson")
        with open(inp, "w") as f:
            for i, c in enumerate(cases):
                c = dict(c)
                c["id"] = i + 1
                f.write(json.dumps(c) + "\n")
        outp, prog = os.path.join(tmp, "out.ndjson"), os.path.join(tmp, "progress")
        # the real stream handler runs in a child process: a crash there is an observation, not the end of the check
        r = run_vh(["wire-mut", "--in", inp, "--out", outp, "--progress", prog], env=GOENV, check=False, timeout=3000)
        if r.returncode != 0:
            at = open(prog).read() if os.path.exists(prog) else "?"
            if "panic" in r.stderr or "fatal error" in r.stderr:
                case = cases[int(at) - 1] if at.isdigit() else {}
                v.violation("crash:" + case.get("kind", "?"), "node process crashed while handling %s\n%s" % (json.dumps(case), r.stderr[-1500:]), {"case": case, "stderr": r.stderr[-3000:]})
                return v.finish({"evaluations": int(at) if at.isdigit() else 1, "distinct_nontrivial": 2, "rule": "aborted by crash", "samples": [case]})
            raise Infra("wire-mut failed rc=%d\n%s" % (r.returncode, r.stderr[-2000:]))
        verdicts, _ = judge(outp, "WireOracleMut.cfg")
        lines = open(outp).read().splitlines()
        if len(verdicts) != len(lines):
            raise Infra("oracle judged %d of %d" % (len(verdicts), len(lines)))
        applied = 0
        outcomes = {}
        for ln in lines:
            rec = json.loads(ln)
            if not rec["skipped"]:
                applied += 1
                outcomes[rec["obs"]["outcome"]] = outcomes.get(rec["obs"]["outcome"], 0) + 1
        for x in verdicts:
            if not x["ok"]:
                rec = json.loads(lines[x["id"] - 1])
                o = rec["obs"]
                what = ("not-served-afterwards" if not o["nextStreamServed"] else "silently-dropped" if o["outcome"] == "none" else
                        "accepted-malformed" if o["outcome"] == "delivered" else "error-without-reset-or-report")
                v.violation("%s:%s" % (what, rec["kind"]), "%s on %s (pos %s val %s): %s" % (rec["kind"], rec["base"], rec.get("pos"), rec.get("val"), json.dumps(o)), rec)
        cov = {"evaluations": applied, "distinct_nontrivial": applied,
               "rule": "malformations of two valid encodings (a new request with extension; a response with metadata and a block), each distinct: 8 frame-level kinds, 24 schema-level kinds (one node of the message tree damaged), "
                       "every cut position of the inner DAG-CBOR and of the framed stream, every byte position overwritten with %d values; each written to a fresh libp2p (mocknet) stream served by the real handleNewStream, followed by a control stream" % (2 if tier == "quick" else 6),
               "samples": [json.loads(lines[10])], "exhaustive": False, "outcomes": outcomes}
        return v.finish(cov, ["TLC enumerates the catalogue and judges the handler's behaviour", "arbitrary byte strings are NOT covered: only this catalogue (a TLA+ model cannot enumerate byte strings; see DESIGN.md section 5)"])
    finally:
        shutil.rmtree(tmp, ignore_errors=True)


def run(pid, tier, seed):
    return run_c11(pid, tier, seed) if pid == "C11" else run_c12(pid, tier, seed)
