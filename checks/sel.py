"""C08: Selector.  TLC enumerates every selector AST up to MaxNodes nodes (each an initial state)
with the model's verdict Valid(ast); the harness builds the selector-spec node, keeps the ones
go-ipld-prime parses (well-formed) and compares ValidateMaxRecursionDepth(node, 100) with Valid."""
import json, os, tempfile, shutil
from vlib import *


def kinds_on_path_to_bad_rec(a, maxacc=100):
    """clause kinds enclosing the first offending recursion (for the violation signature)"""
    if a is None:
        return None
    if a["k"] == "rec" and (a["lim"] == 0 or a["lim"] > maxacc):
        return []
    for x in ("n", "a", "b"):
        if a.get(x) is not None:
            r = kinds_on_path_to_bad_rec(a[x], maxacc)
            if r is not None:
                return [a["k"]] + r
    return None


def run(pid, tier, seed):
    v = Verdict(pid, tier, seed, "model_checking")
    tmp = tempfile.mkdtemp(prefix="vsel-")
    try:
        cfg = "Selector4.cfg" if tier == "quick" else "Selector5.cfg"
        res = tlc_must_pass(run_tlc("Selector", "Selector.tla", cfg, workers=1, timeout=3000), "Selector " + cfg)
        f = os.path.join(tmp, "asts.ndjson")
        n = 0
        with open(f, "w") as fh:
            for ln in res.printed():
                fh.write(ln + "\n")
                n += 1
        out = json.loads(run_vh(["sel-check", "--in", f, "--max", 100]).stdout)
        for b in (out["bad"] or []):
            if b["valid"]:
                sig = "rejected-valid"
                desc = "validator rejects a selector whose recursions are all limited to <= 100: %s" % json.dumps(b["ast"])
            else:
                path = kinds_on_path_to_bad_rec(b["ast"]) or []
                under = sorted(set(path) & {"interp"}) or sorted(set(path))[:1] or ["top"]
                sig = "accepted-invalid:under=" + "+".join(under)
                desc = "validator accepts a selector with an unbounded/too deep recursion (enclosing clauses %s): %s" % (path, json.dumps(b["ast"]))
            v.violation(sig, desc, b)
        if out["well_formed"] < 100 or out["well_formed_invalid"] < 10:
            raise Infra("vacuous selector enumeration: %s" % out)
        cov = {"states": res.distinct, "transitions": res.generated - n, "traces_validated_against_impl": out["well_formed"],
               "asts_enumerated": out["total"], "well_formed": out["well_formed"], "well_formed_invalid": out["well_formed_invalid"],
               "samples": out["samples"] or [{"note": "none"}], "exhaustive": True,
               "rule": "all selector ASTs with <= %s nodes over {matcher, edge, all, fields(1|2), index, range, union, interpret-as, recursive x limits {none,1,100,101,10^6}}; "
                       "kept when selector.ParseSelector accepts; ValidateMaxRecursionDepth(.,100)==nil compared with Valid(ast)" % ("4" if tier == "quick" else "5")}
        return v.finish(cov, ["TLC", "go-ipld-prime ParseSelector defines well-formedness", "ExploreConditional, stop-at conditions and matcher subsets not enumerated"])
    finally:
        shutil.rmtree(tmp, ignore_errors=True)
