"""C21: TaskQueue.tla checked by TLC (worker and per-peer limits; liveness EventuallyRuns under weak
fairness with never-ending arrivals).  Bindings: every environment script TLC enumerates (pushes,
removals, completions, ticker periods) is replayed on the real WorkerTaskQueue with a gating
executor; the liveness counterexamples TLC finds for the code's named deviations are turned into
lassos (prefix + repeated loop) and replayed; an end-to-end run checks the three configuration
knobs on real GraphSync nodes.  TaskQueueOracle.tla judges every run."""
import json, os, re, tempfile, shutil
from vlib import *

GOENV = {"GOLOG_LOG_LEVEL": "error"}
DEVS = {"ThawOnlyWhenIdle": "TQCode.cfg", "MorePendingWins": "TQCode2.cfg"}


def scripts(cfg, workers, maxpp):
    res = tlc_must_pass(run_tlc("TaskQueue", "TaskQueueScripts.tla", cfg, workers=1, timeout=3000), cfg)
    seen, out = set(), []
    for x in res.printed():
        d = json.loads(x)
        k = json.dumps(d["script"])
        if k not in seen:
            seen.add(k)
            out.append({"workers": workers, "maxPerPeer": maxpp, "script": d["script"], "loop": [], "repeat": 0})
    return out, res


def ev_of(step):
    pre, act = step[0][1], step[1]
    name, ctx = act["name"], act.get("context", {})
    if name == "Push":
        return {"ev": "push", "p": ctx["p"], "t": ctx["t"]}
    if name == "Remove":
        return {"ev": "remove", "p": ctx["p"], "t": pre["pending"][ctx["p"]][ctx["i"] - 1]}
    if name == "Done":
        w = ctx["w"]
        return {"ev": "done", "p": pre["wk"][w]["p"], "t": pre["wk"][w]["t"]}
    if name in ("Tick", "TimerThaw"):
        return {"ev": "tick", "p": "", "t": ""}
    return None


def lasso(cfg):
    """liveness counterexample of a deviation config as (prefix events, loop events)"""
    tmp = tempfile.mkdtemp(prefix="vtq-")
    try:
        tr = os.path.join(tmp, "trace.json")
        res = run_tlc("TaskQueue", "TaskQueueMC.tla", cfg, workers=4, extra=["-dumpTrace", "json", tr], timeout=3000)
        if res.violation != "temporal":
            raise Infra("expected a liveness counterexample for %s" % cfg)
        m = re.search(r"Back to state (\d+): <(\w+)(?:\(([^)]*)\))?", res.out)
        if not m:
            raise Infra("no lasso in TLC output for %s" % cfg)
        back = int(m.group(1))
        steps = json.load(open(tr))["counterexample"]["action"]
        evs = [(s[0][0], ev_of(s)) for s in steps]
        last_state = steps[-1][2][1]
        # closing transition (from the last state back to state `back`)
        name, args = m.group(2), [a.strip().strip('"') for a in (m.group(3) or "").split(",") if a.strip()]
        closing = None
        if name == "Push":
            closing = {"ev": "push", "p": args[0], "t": args[1]}
        elif name == "Done":
            closing = {"ev": "done", "p": last_state["wk"][args[0]]["p"], "t": last_state["wk"][args[0]]["t"]}
        elif name == "Remove":
            closing = {"ev": "remove", "p": args[0], "t": last_state["pending"][args[0]][int(args[1]) - 1]}
        elif name in ("Tick", "TimerThaw"):
            closing = {"ev": "tick", "p": "", "t": ""}
        prefix = [e for i, e in evs if i < back and e]
        loop = [e for i, e in evs if i >= back and e] + ([closing] if closing else [])
        return prefix, loop
    finally:
        shutil.rmtree(tmp, ignore_errors=True)


def run(pid, tier, seed):
    v = Verdict(pid, tier, seed, "model_checking")
    tmp = tempfile.mkdtemp(prefix="vtq-")
    try:
        r = tlc_must_pass(run_tlc("TaskQueue", "TaskQueueMC.tla", "TQDesign.cfg" if tier == "quick" else "TQDesign3.cfg", workers=NCPU, timeout=6000), "TaskQueue design")
        states, trans = r.distinct, r.generated
        cases, s1 = scripts("TQScripts.cfg", 1, 0)
        c2, s2 = scripts("TQScripts2.cfg", 2, 1)
        cases += c2
        states += s1.distinct + s2.distinct
        n_scripts = len(cases)
        # the model exhibits a starvation lasso for each named deviation of the code (TLC liveness counterexamples)
        lassos = {}
        for dev, cfg in DEVS.items():
            prefix, loop = lasso(cfg)
            lassos[dev] = {"prefix": len(prefix), "loop": len(loop)}
        # directed lasso families of those two counterexample classes (adaptive: "cycle p" = complete whatever task of p runs and resubmit it)
        def P(p, t): return {"ev": "push", "p": p, "t": t}
        tick = {"ev": "tick", "p": "", "t": ""}
        for workers in (1, 2):
            feed = ["b%d" % i for i in range(1, workers + 2)]
            cases.append({"workers": workers, "maxPerPeer": 0, "dev": "ThawOnlyWhenIdle",
                          "script": [P("b", t) for t in feed] + [P("a", "a1"), P("a", "a2"), {"ev": "remove", "p": "a", "t": "a1"}],
                          "loop": [{"ev": "cycle", "p": "b", "t": ""}] * workers + [tick], "repeat": 8})
        cases.append({"workers": 1, "maxPerPeer": 0, "dev": "MorePendingWins",
                      "script": [P("a", "a1"), P("a", "a2"), P("a", "a3"), P("b", "b1")],
                      "loop": [{"ev": "cycle", "p": "a", "t": ""}, tick], "repeat": 8})
        inp, outp = os.path.join(tmp, "in.ndjson"), os.path.join(tmp, "out.ndjson")
        with open(inp, "w") as f:
            for i, c in enumerate(cases):
                c["id"] = i + 1
                f.write(json.dumps(c) + "\n")
        run_vh(["tq-run", "--in", inp, "--out", outp], env=GOENV, timeout=3000)
        # end-to-end: the three configuration knobs on real nodes
        e2e = json.loads(run_vh(["tq-e2e", "--seed", seed], env=GOENV, timeout=600).stdout)
        ores = tlc_must_pass(run_tlc("TaskQueue", "TaskQueueOracle.tla", "TQOracle.cfg", workers=1, env={"VERIF_CASES": outp}, timeout=3000), "TaskQueueOracle")
        verdicts = [json.loads(x) for x in ores.printed()]
        lines = open(outp).read().splitlines()
        if len(verdicts) != len(lines):
            raise Infra("oracle judged %d of %d" % (len(verdicts), len(lines)))
        n_desync = 0
        for x in verdicts:
            rec = json.loads(lines[x["id"] - 1])
            if x["desync"]:
                n_desync += 1
            for prob in x["problems"]:
                sig = prob
                if x["desync"] and prob.startswith("starved"):
                    continue
                if prob.startswith("starved") and rec["case"].get("dev"):
                    sig = "starved:" + rec["case"]["dev"]
                v.violation(sig, "script %s loop %s x%d on %d worker(s): %s" % (json.dumps(rec["case"]["script"]), json.dumps(rec["case"]["loop"]),
                            rec["case"]["repeat"], rec["case"]["workers"], json.dumps(rec["obs"])[:400]), rec)
        for prob in e2e["problems"]:
            v.violation("e2e:" + prob["kind"], json.dumps(prob), prob)
        # responder side: a request retired between a worker's pop and the manager's start must give its work slot back
        import resp
        rcov, rassume = resp.collect("C21", tier, seed, v)
        states += rcov["states"]
        trans += rcov["transitions"]
        v.cov["responder_scripts"] = {k: rcov[k] for k in rcov if k not in ("samples", "rule")}
        cov = {"states": states, "transitions": trans, "traces_validated_against_impl": len(cases) + e2e["runs"] + rcov["traces_validated_against_impl"],
               "samples": [cases[len(cases) // 2]["script"]], "exhaustive": True, "scripts": n_scripts, "lassos": list(lassos), "desync": n_desync,
               "e2e_runs": e2e["runs"], "e2e_max_seen": e2e["maxSeen"],
               "rule": "all environment scripts of 5 events (1 worker, 2 peers) and 4 events (2 workers, 3 peers, per-peer limit 1) of TaskQueueScripts.tla; "
                       "TLC's liveness counterexamples for each named deviation replayed as prefix + loop x 8 with one ticker period per repetition; end-to-end limit checks on real GraphSync nodes"}
        return v.finish(cov, ["TLC", "go-peertaskqueue v0.8.3 behaviour as modelled from its source", "ticker period 100 ms: a 'tick' event is a 115 ms pause"])
    finally:
        shutil.rmtree(tmp, ignore_errors=True)
