"""C04 / C09 / C23 (requestor side): Requestor.tla checked by TLC (safety + liveness under per-thread
fairness); RequestorScripts.tla enumerates every environment script (responder / third-peer
messages with response-hook reactions, pause, unpause, context cancel, API cancel, block-hook
decisions, each placed at a point the harness can hold the real executor at); every script is
replayed on a real GraphSync requestor against raw peers on verifnet; RequestorOracle.tla judges
the observables at quiescence against the design model's allowed outcomes."""
import json, os, tempfile, shutil, random
from vlib import *

GOENV = {"GOLOG_LOG_LEVEL": "fatal"}


def scripts(dev, maxenv):
    cfg = "ReqScripts_run.cfg"
    p = os.path.join(SPECS, "Requestor", cfg)
    with open(p, "w") as f:
        f.write("CONSTANTS K = 2 Dev = %s MaxEnv = %d\nINIT SInit\nNEXT SNext\nINVARIANT EmitScript\nCHECK_DEADLOCK FALSE\n" % (dev, maxenv))
    try:
        res = tlc_must_pass(run_tlc("Requestor", "RequestorScripts.tla", cfg, workers=1, timeout=6000), "RequestorScripts")
    finally:
        os.remove(p)
    s = {}
    for x in res.printed():
        d = json.loads(x)
        evs = [e["ev"] for e in d["script"]]
        if "setupstart" in evs and "setupdone" not in evs:
            continue     # the harness always lets the setup finish
        key = json.dumps(d["script"])
        s.setdefault(key, [])
        if d["final"] not in s[key]:
            s[key].append(d["final"])
    return s, res


PROBLEM_KEY = {"C04": "c04", "C09": "c09", "C23": "c23"}


def run(pid, tier, seed):
    v = Verdict(pid, tier, seed, "model_checking")
    tmp = tempfile.mkdtemp(prefix="vreq-")
    try:
        r = tlc_must_pass(run_tlc("Requestor", "Requestor.tla", "ReqDesign.cfg" if tier == "quick" else "ReqDesign5.cfg", workers=NCPU, timeout=6000), "Requestor design")
        states, trans = r.distinct, r.generated
        design, sres = scripts("{}", 2)
        states += sres.distinct
        trans += sres.generated
        keys = sorted(design)
        n2 = len(keys)
        if tier == "thorough":
            d3, s3 = scripts("{}", 3)
            states += s3.distinct
            trans += s3.generated
            rng = random.Random(seed)
            extra = [k for k in sorted(d3) if k not in design]
            rng.shuffle(extra)
            for k in extra[:20000]:
                design[k] = d3[k]
            keys = sorted(design)
        cases = []
        index = {}
        for i, k in enumerate(keys):
            sc = json.loads(k)
            cases.append({"id": i + 1, "script": sc, "finals": design[k]})
            index[json.dumps(sc, sort_keys=True)] = i
        # a cancel that arrives while the request is being set up races with the executor's own first message: these scripts
        # are run four times each (the race showed in about one run in ten before the repair c1e34d2)
        racy = [c for c in cases if any(e["ev"] in ("ctxcancel", "apicancel") and e["at"] in ("setup", "queued") for e in c["script"])]
        for rep in range(3):
            for c in racy:
                cases.append({"id": len(cases) + 1, "script": c["script"], "finals": c["finals"]})

        def judge(cs, tag):
            """replay the scripts cs (renumbered 1..n) on the real requestor and let the oracle judge them"""
            cs = [dict(c, id=i + 1) for i, c in enumerate(cs)]
            idx = {json.dumps(c["script"], sort_keys=True): i for i, c in enumerate(cs)}
            inp, outp = os.path.join(tmp, tag + "-scripts.ndjson"), os.path.join(tmp, tag + "-obs.ndjson")
            with open(inp, "w") as f:
                for c in cs:
                    f.write(json.dumps(c) + "\n")
            run_vh(["req-run", "--in", inp, "--out", outp], env=GOENV, timeout=7200)
            rs = [json.loads(l) for l in open(outp)]
            # baseline for C09: the same script without the third peer's messages
            judged = os.path.join(tmp, tag + "-judge.ndjson")
            with open(judged, "w") as f:
                for rec in rs:
                    sc = rec["case"]["script"]
                    has_c = any(e["ev"] == "C" for e in sc)
                    bi = idx.get(json.dumps([e for e in sc if e["ev"] != "C"], sort_keys=True))
                    rec["hasC"] = has_c
                    rec["hasBaseline"] = has_c and bi is not None and not rs[bi]["obs"]["desync"]
                    rec["baseline"] = rs[bi]["obs"] if rec["hasBaseline"] else rec["obs"]
                    f.write(json.dumps(rec) + "\n")
            ores = tlc_must_pass(run_tlc("Requestor", "RequestorOracle.tla", "ReqOracle.cfg", workers=1, env={"VERIF_CASES": judged}, timeout=7200), "RequestorOracle")
            vs = [json.loads(x) for x in ores.printed()]
            if len(vs) != len(cs):
                raise Infra("oracle judged %d of %d scripts" % (len(vs), len(cs)))
            return rs, vs, ores.distinct
        recs, verdicts, ost = judge(cases, "all")
        states += ost
        # a difference from the baseline run must be reproducible: both runs are repeated twice
        BASE = "outcome-differs-from-run-without-third-peer"
        suspects = [x["id"] - 1 for x in verdicts if BASE in x["c09"] and not x["desync"]]
        n_unconfirmed = 0
        if pid == "C09" and suspects:
            sub, seen = [], set()
            for i in suspects:
                for sc in (cases[i]["script"], [e for e in cases[i]["script"] if e["ev"] != "C"]):
                    k = json.dumps(sc, sort_keys=True)
                    if k not in seen:
                        seen.add(k)
                        sub.append(cases[index[k]])
            persistent = set(json.dumps(cases[i]["script"], sort_keys=True) for i in suspects)
            for rnd in range(2):
                rs2, vs2, _ = judge(sub, "confirm%d" % rnd)
                still = set(json.dumps(rs2[x["id"] - 1]["case"]["script"], sort_keys=True) for x in vs2 if BASE in x["c09"] and not x["desync"])
                persistent &= still
            for x in verdicts:
                if BASE in x["c09"] and json.dumps(cases[x["id"] - 1]["script"], sort_keys=True) not in persistent:
                    x["c09"].remove(BASE)
                    n_unconfirmed += 1
        n_mismatch = n_desync = 0
        key = PROBLEM_KEY[pid]
        for x in verdicts:
            rec = recs[x["id"] - 1]
            if x["desync"]:
                n_desync += 1
            elif not x["conforms"]:
                n_mismatch += 1
            for prob in x[key]:
                if x["desync"] and prob not in ("third-peer-response-reached-response-hook", "message-sent-to-third-peer", "diagnostics-not-empty", "request-manager-loop-blocked"):
                    continue    # the real run left the script: only script-independent observations count
                v.violation(prob, "script %s: real observables %s; design model allows %s" % (
                    json.dumps(rec["case"]["script"]), json.dumps(rec["obs"])[:500], json.dumps(rec["case"]["finals"])[:300]), rec)
        with_c = sum(1 for c in cases if any(e["ev"] == "C" for e in c["script"]))
        cov = {"states": states, "transitions": trans, "traces_validated_against_impl": len(cases),
               "samples": [cases[len(cases) // 2]["script"]], "exhaustive": tier == "quick",
               "scripts_two_env_events": n2, "scripts_total": len(cases), "scripts_with_third_peer": with_c, "scripts_with_baseline": sum(1 for rec in recs if rec["hasBaseline"]),
               "spec_mismatch": n_mismatch, "desync": n_desync, "baseline_differences_not_reproduced": n_unconfirmed,
               "rule": "every behaviour of RequestorScripts.tla with K=2 blocks and <= 2 (thorough: sampled 3) environment events projected on its environment script; "
                       "each replayed on the real requestor with gates (storage read, block hook) holding the executor at the script's points"}
        if pid == "C23":
            import resp
            rcov, rassume = resp.collect("C23", tier, seed, v)
            cov["responder"] = {k: rcov[k] for k in rcov if k != "samples"}
            cov["states"] += rcov["states"]
            cov["transitions"] += rcov["transitions"]
            cov["traces_validated_against_impl"] += rcov["traces_validated_against_impl"]
            cov["samples"] += rcov["samples"][:1]
        if not v.new and not v.known_hit and n_desync + n_mismatch > len(cases) // 20:
            raise Infra("too many scripts the real code did not follow (%d desync, %d mismatch of %d): model or harness out of date" % (n_desync, n_mismatch, len(cases)))
        return v.finish(cov, ["TLC", "verifnet raw peers", "stable points reached via gates in user callbacks plus a 6 ms settle for the waiting executor",
                              "wire compared as a set (same-id requests coalesce in one outgoing message)"])
    finally:
        shutil.rmtree(tmp, ignore_errors=True)
