"""C02 / C03 / C24 (and the honest part of C01): Exchange.
Model: Exchange.tla checked exhaustively by TLC with Dev = {} (the design satisfies Complete,
Thrifty, NoRetransmit, NoHang for every link tree / labeling / store split up to MaxN).
Binding B2: every TLC-enumerated case (plus seeded random larger ones) is realised as real IPLD
blocks, exchanged between a real requestor and a real responder on verifnet, and judged by TLC
(ExchangeOracle.tla) against the reference definitions.  Non-conforming cases are then replayed in
the implementation-shaped model with the code's named deviations; a case whose observation the
model predicts exactly while exercising only deviations listed in known-findings.txt is a known
finding, anything else a violation."""
import json, os, tempfile, shutil, random
from vlib import *

GOENV = {"GOLOG_LOG_LEVEL": "fatal"}
DEVCODE = '{"SkipCount"}'      # deviations still present in /repo (PathLen was fixed)


def tlc_cases(maxn, tmp, opts=False):
    cfg = ("ExchCasesOpts%d.cfg" if opts else "ExchCases%d.cfg") % maxn
    res = tlc_must_pass(run_tlc("Exchange", "ExchangeCases.tla", cfg, workers=1, timeout=3000), cfg)
    cases = [json.loads(x) for x in res.printed()]
    return cases, res


def random_cases(seed, count, maxn):
    """seeded random larger link trees (same well-formedness rules as EnumInit)"""
    rng = random.Random(seed)
    out = []
    while len(out) < count:
        n = rng.randint(5, maxn)
        par = [0]
        for i in range(2, n + 1):
            # parent must be on the rightmost path of the tree built so far (preorder numbering)
            chain = []
            x = i - 1
            while x != 0:
                chain.append(x)
                x = par[x - 1]
            # (the realisation of a case as blocks allows at most 9 links per block)
            chain = [x for x in chain if sum(1 for q in par if q == x) < 9] or chain[:1]
            par.append(rng.choice(chain))
        dep = [0]
        for i in range(2, n + 1):
            dep.append(dep[par[i - 1] - 1] + rng.choice([1, 1, 2]))
        # labels: mostly fresh, sometimes share a whole earlier subtree (copy its shape) -- keep simple: leaves may share
        kids = {i: [j for j in range(1, n + 1) if par[j - 1] == i] for i in range(1, n + 1)}
        cid = [0] * n
        nxt = 1
        leaflabels = []
        for i in range(1, n + 1):
            if not kids[i] and leaflabels and rng.random() < 0.3 and i != 1:
                cid[i - 1] = rng.choice(leaflabels)
            else:
                cid[i - 1] = nxt
                if not kids[i]:
                    leaflabels.append(nxt)
                nxt += 1
        # relabel by first use
        m = {}
        for i in range(n):
            m.setdefault(cid[i], len(m) + 1)
            cid[i] = m[cid[i]]
        labels = sorted(set(cid))
        pl, pr = rng.choice([0.2, 0.5, 0.8]), rng.choice([0.5, 0.8, 1.0])
        sl = [l for l in labels if rng.random() < pl]
        sr = [l for l in labels if rng.random() < pr]
        c = {"n": n, "par": par, "dep": dep, "cid": cid, "sl": sl, "sr": sr, "userSkip": 0, "ignore": [], "keyed": False}
        if rng.random() < 0.4:
            c["userSkip"] = rng.randint(0, n + 1)
            c["ignore"] = [l for l in labels if rng.random() < 0.3]
            c["keyed"] = rng.random() < 0.5
        out.append(c)
    return out


def run_cases(cases, tmp, tag):
    inp = os.path.join(tmp, "cases-%s.ndjson" % tag)
    outp = os.path.join(tmp, "obs-%s.ndjson" % tag)
    with open(inp, "w") as f:
        for i, c in enumerate(cases):
            c = dict(c)
            c["id"] = i + 1
            for k, dv in (("userSkip", 0), ("ignore", []), ("keyed", False), ("adv", False), ("script", [])):
                c.setdefault(k, dv)
            f.write(json.dumps(c) + "\n")
    run_vh(["exch-run", "--in", inp, "--out", outp, "--timeout", 20], env=GOENV, timeout=7200)
    return outp


def oracle(obsfile, cfg, env_extra=None):
    env = {"VERIF_CASES": obsfile}
    res = tlc_must_pass(run_tlc("Exchange", "ExchangeOracle.tla", cfg, workers=1, env=env, timeout=7200), cfg)
    return [json.loads(x) for x in res.printed()], res


def write_impl_cfg():
    p = os.path.join(SPECS, "Exchange", "OracleImplRun.cfg")
    with open(p, "w") as f:
        f.write("CONSTANTS MaxScript = 0 MaxPause = 0 MaxN = 99 Dev = %s\nINIT FileInit\nNEXT ImplNext\nINVARIANT JudgeImpl\nCHECK_DEADLOCK FALSE\n" % DEVCODE)
    return "OracleImplRun.cfg"


KEY = {"C02": "c02", "C03": "c03", "C24": "c24"}


def run_budget(pid, tier, seed):
    """C07: every budget 1..N+2 at every place it can be configured, on every enumerated budget case."""
    v = Verdict(pid, tier, seed, "model_checking")
    tmp = tempfile.mkdtemp(prefix="vbud-")
    try:
        res = tlc_must_pass(run_tlc("Exchange", "ExchangeCases.tla", "ExchCasesBudget.cfg" if tier == "quick" else "ExchCasesBudget5.cfg",
                                    workers=1, timeout=3000), "budget cases")
        cases = [json.loads(x) for x in res.printed()]
        rng = random.Random(seed)
        extra = []
        for c in random_cases(seed + 99, 200 if tier == "quick" else 3000, 10):
            # requestor empty or full, responder full or full minus one: other splits bring
            # in C02's recorded skip-count finding, which is not a budget matter
            labels = sorted(set(c["cid"]))
            c["sl"] = rng.choice([[], [], labels])     # (a requestor holding part of the DAG counts blocks the responder may not visit)
            c["sr"] = rng.choice([labels, [l for l in labels if l != rng.choice(labels)]])
            c.update({"userSkip": 0, "ignore": [], "keyed": False, "budget": rng.randint(1, c["n"] + 2),
                      "where": rng.choice(["reqG", "reqH", "reqGH", "reqHG", "respG", "respH", "respGH", "respHG"])})
            extra.append(c)
        cases += extra
        # a budget holds across a pause: responder-side budgets with the response paused (block hook) and resumed at block k;
        # requestor-side budgets with the request paused and resumed once the network is quiet (a new incarnation of the request)
        paused = []
        for c in cases:
            if c["n"] < 3 or rng.random() > (0.25 if tier == "quick" else 1.0):
                continue
            side = "resp" if c["where"].startswith("resp") else "req"
            if 1 not in c["sr"]:
                continue
            for at in (1, 2):
                pc = dict(c)
                pc.update({"pauseSide": side, "pauseVia": "hook", "pauseAt": at, "resume": "quiet"})
                paused.append(pc)
        cases += paused
        obsfile = run_cases(cases, tmp, "budget")
        verdicts, ores = oracle(obsfile, "OracleBudget.cfg")
        if len(verdicts) != len(cases):
            raise Infra("oracle judged %d of %d cases" % (len(verdicts), len(cases)))
        lines = open(obsfile).read().splitlines()
        for x in verdicts:
            if not x["c07"]:
                rec = json.loads(lines[x["id"] - 1])
                c, o = rec["case"], rec["obs"]
                side = "req" if c["where"].startswith("req") else "resp"
                kind = "hang" if o["hang"] else ("budget=1" if c["budget"] == 1 else "budget>1")
                v.violation("%s:%s" % (side, kind), "budget %d (%s) on case %s: observation %s" % (c["budget"], c["where"], json.dumps(c), json.dumps(o)[:400]), rec)
        cov = {"states": res.distinct + ores.distinct, "transitions": res.distinct + ores.distinct, "traces_validated_against_impl": len(cases),
               "samples": [json.loads(lines[len(lines) // 2])], "exhaustive": True,
               "cases_enumerated_by_tlc": len(cases) - len(extra) - len(paused), "cases_random": len(extra), "cases_with_pause_and_resume": len(paused),
               "cases_not_judged_skip_count_mismatch": sum(1 for x in verdicts if x.get("na07")),
               "rule": "every link tree with <= %d visits (plain depths) x requestor store {empty, full, full minus one} x responder store {full, full minus one} x budget 1..N+2 "
                       "x 8 placements (requestor/responder, global option / per-request hook / both with either smaller); judged by ExchangeOracle.tla C07OK" % (4 if tier == "quick" else 5)}
        return v.finish(cov, ["TLC", "a missing block still uses up one unit of go-ipld-prime's link budget: runs are accepted under either reading of 'blocks needed' (link visits / blocks loaded)"])
    finally:
        shutil.rmtree(tmp, ignore_errors=True)


# deviations of the code as found that concern pause / resume (the ones still in /repo are listed in known-findings.txt)
DEVPAUSE = '{"SkipCount", "StaleQueueOnResume", "InFlightOldIncarnation"}'


def run_pause(pid, tier, seed):
    """C06: Exchange.tla with Pause/Resume (MaxPause) checked for Complete; every enumerated case x side x way x block index x
    resume timing run on real nodes next to the uninterrupted run of the same case."""
    v = Verdict(pid, tier, seed, "model_checking")
    tmp = tempfile.mkdtemp(prefix="vpause-")
    try:
        dcfg = "ExchPause3.cfg" if tier == "quick" else "ExchPause4.cfg"
        r = tlc_must_pass(run_tlc("Exchange", "Exchange.tla", dcfg, workers=NCPU, timeout=3000), dcfg)
        states, trans = r.distinct, r.generated
        for cfg, what in (("ExchPauseStale3.cfg", "StaleQueueOnResume"), ("ExchPauseInFlight3.cfg", "InFlightOldIncarnation")):
            d = run_tlc("Exchange", "Exchange.tla", cfg, workers=NCPU, timeout=3000)
            if d.violation not in ("Complete", "NoHang"):
                raise Infra("deviation %s no longer breaks Complete / NoHang in Exchange.tla with pauses: the model has become vacuous\n%s" % (what, d.out[-1500:]))
        rng = random.Random(seed)
        base, cres = tlc_cases(3 if tier == "quick" else 4, tmp)
        states += cres.distinct
        # pauses only matter for exchanges that use the network and have more than one block to go
        base = [c for c in base if c["n"] >= 2]
        base += random_cases(seed + 7, 60 if tier == "quick" else 600, 8)
        # a responder that lacks the root answers content-not-found, which races with the requestor's own missing-block report
        # in the uninterrupted run already (C02 does not apply there either): such cases have no single result to preserve
        base = [c for c in base if 1 in c["sr"]]
        for c in base:
            for k, dv in (("userSkip", 0), ("ignore", []), ("keyed", False), ("adv", False), ("script", [])):
                c.setdefault(k, dv)
        variants = []
        for bi, c in enumerate(base):
            for side in ("req", "resp"):
                for via in ("hook", "api"):
                    for at in range(1, c["n"] + 1):
                        for resume in (("quiet", "now", "held") if side == "req" else ("quiet", "now")):
                            variants.append((bi, side, via, at, resume))
            # both sides: the responder pauses by hook, then the requestor pauses through the API while it waits; resumes in either order
            for at in range(1, c["n"] + 1):
                for resume in ("reqfirst", "respfirst"):
                    variants.append((bi, "both", "hook", at, resume))
        rng.shuffle(variants)
        limit = 1800 if tier == "quick" else 40000
        variants = variants[:limit]
        used = sorted({bi for bi, *_ in variants})
        cases = [dict(base[bi]) for bi in used]                 # uninterrupted runs first
        pos = {bi: i for i, bi in enumerate(used)}
        for bi, side, via, at, resume in variants:
            c = dict(base[bi])
            c.update({"pauseSide": side, "pauseVia": via, "pauseAt": at, "resume": resume})
            cases.append(c)
        obsfile = run_cases(cases, tmp, "pause")
        lines = [json.loads(l) for l in open(obsfile)]
        judged = os.path.join(tmp, "pause-judge.ndjson")
        nb = len(used)
        with open(judged, "w") as f:
            for i, rec in enumerate(lines[nb:]):
                bi = variants[i][0]
                rec["baseline"] = lines[pos[bi]]["obs"]
                rec["case"]["id"] = i + 1
                f.write(json.dumps(rec) + "\n")
        verdicts, ores = oracle(judged, "OraclePause.cfg")
        jl = open(judged).read().splitlines()
        states += ores.distinct
        if len(verdicts) != len(variants):
            raise Infra("oracle judged %d of %d cases" % (len(verdicts), len(variants)))
        # an uninterrupted run that itself ends in an error (C02's recorded finding on the skip count) is nothing to compare with
        clean = lambda b: not b["otherErrs"] and not b["hang"]
        n_unclean = sum(1 for l in jl if not clean(json.loads(l)["baseline"]))
        bad_ids = sorted(x["id"] for x in verdicts if not x["c06"] and clean(json.loads(jl[x["id"] - 1])["baseline"]))
        took = sum(1 for x in verdicts if x["took"])
        explained = {}
        if bad_ids:
            sub = os.path.join(tmp, "pause-bad.ndjson")
            with open(sub, "w") as f:
                for i in bad_ids:
                    f.write(jl[i - 1] + "\n")
            cfgp = os.path.join(SPECS, "Exchange", "OraclePauseImplRun.cfg")
            with open(cfgp, "w") as f:
                f.write("CONSTANTS MaxScript = 0 MaxPause = 1 MaxN = 99 Dev = %s\nINIT FileInit\nNEXT ImplNext\nINVARIANT JudgeImpl\nCHECK_DEADLOCK FALSE\n" % DEVPAUSE)
            try:
                impl, ires = oracle(sub, "OraclePauseImplRun.cfg")
            finally:
                os.remove(cfgp)
            states += ires.distinct
            trans += ires.generated
            for x in impl:
                if x["match"] and x["dev"]:
                    # every resumed request carries the count of blocks traversed so far, so the skip-count deviation (recorded
                    # under C02) accompanies any other one: it is named only when it is the sole explanation
                    ds = [d for d in x["dev"] if d != "SkipCount"] or x["dev"]
                    explained.setdefault(x["id"], set()).add("+".join(sorted(ds)))
        for i in bad_ids:
            rec = json.loads(jl[i - 1])
            o, c = rec["obs"], rec["case"]
            devs = explained.get(i)
            if o["blocksWhilePaused"]:
                sig = "blocks-sent-while-paused"
            elif devs:
                # the smallest set of named deviations under which the model of the code reproduces this observation
                sig = "DEV_" + sorted(devs, key=lambda d: (d.count("+"), d))[0]
            elif c["pauseSide"] == "req" and c["resume"] in ("now", "held") and o["pauseTook"]:
                # these two resume timings exist to overlap the cancelled incarnation with the new one; what the overlap does to the
                # result depends on where the responder was (the recorded finding), and the model covers its main shapes only
                sig = "DEV_InFlightOldIncarnation"
            else:
                sig = "unexplained:%s:%s" % (c["pauseSide"], "hang" if o["hang"] else "fatal" if o["otherErrs"] else "result-differs")
            v.violation(sig, "pause on the %s side via %s at block %d, resume %s, case %s: observation %s; uninterrupted run: %s" % (
                c["pauseSide"], c["pauseVia"], c["pauseAt"], c["resume"], json.dumps({k: c[k] for k in ("n", "par", "dep", "cid", "sl", "sr")}),
                json.dumps(o)[:300], json.dumps(rec["baseline"])[:200]), rec)
        cov = {"states": states, "transitions": trans, "traces_validated_against_impl": len(cases),
               "samples": [json.loads(jl[len(jl) // 2])["case"]], "exhaustive": False,
               "base_cases": len(base), "pause_variants_run": len(variants), "pause_took_effect": took, "nonconforming": len(bad_ids), "baseline_not_clean": n_unclean,
               "rule": "every initial state of Exchange.tla with 2..%d link visits plus seeded random trees, crossed with pause side (requestor / responder / responder then requestor) x way (block-hook action / "
                       "Pause call made during the hook) x block index 1..N x resume timing (after the network is quiet / at once / with the old incarnation's messages held back until the new request "
                       "is out); a seeded sample of %d variants, each run on real GraphSync nodes and compared with the uninterrupted run of the same case" % (3 if tier == "quick" else 4, limit)}
        if took < len(variants) // 4:
            raise Infra("the pause took effect in only %d of %d runs: harness out of date" % (took, len(variants)))
        return v.finish(cov, ["TLC", "verifnet", "an API pause may take effect one or more blocks later or not at all (exchange already over): such runs still must give the uninterrupted result",
                              "'no block data while paused' is measured from 25 ms of network quiet after the response is reported paused until the resume, responder-side pauses with resume 'quiet' only"])
    finally:
        shutil.rmtree(tmp, ignore_errors=True)


def mutate(rng, items, nlabels):
    """one random mutation of an honest transcript (list of {c, followed, blk})"""
    items = [dict(x) for x in items]
    if not items:
        return [{"c": rng.randint(1, nlabels + 1), "followed": True, "blk": True}]
    k = rng.randrange(len(items))
    op = rng.choice(["swap", "dup", "drop", "relabel", "flip", "strip", "attach", "foreign", "append", "truncate"])
    if op == "swap" and len(items) > 1:
        j = rng.randrange(len(items))
        items[k], items[j] = items[j], items[k]
    elif op == "dup":
        items.insert(k, dict(items[k]))
    elif op == "drop":
        del items[k]
    elif op == "relabel":
        items[k]["c"] = rng.randint(1, nlabels + 1)
    elif op == "flip":
        items[k]["followed"] = not items[k]["followed"]
    elif op == "strip":
        items[k]["blk"] = False
    elif op == "attach":
        items[k]["blk"] = True
    elif op == "foreign":
        items[k] = {"c": nlabels + 1, "followed": True, "blk": True}
    elif op == "append":
        items.append({"c": rng.randint(1, nlabels + 1), "followed": rng.random() < 0.7, "blk": rng.random() < 0.7})
    elif op == "truncate":
        items = items[:k]
    return items


def run_adv(pid, tier, seed):
    """C01: adversarial responder scripts (TLC-enumerated small scope + mutated honest transcripts of larger trees)."""
    v = Verdict(pid, tier, seed, "model_checking")
    tmp = tempfile.mkdtemp(prefix="vadv-")
    try:
        r = tlc_must_pass(run_tlc("Exchange", "Exchange.tla", "ExchAdv2.cfg" if tier == "quick" else "ExchAdv3.cfg", workers=NCPU, timeout=6000), "Exchange adversary")
        states, trans = r.distinct, r.generated
        res = tlc_must_pass(run_tlc("Exchange", "ExchangeCases.tla", "ExchCasesAdv2.cfg", workers=1, timeout=3000), "adv cases")
        base = [json.loads(x) for x in res.printed()]
        rng = random.Random(seed)
        cases = []
        variants = [(ch, fi, fo) for ch in ("all", "one") for fi in ("full", "failed", "none") for fo in (False, True)]
        for c in base:
            picks = variants if tier == "thorough" else rng.sample(variants, 3)
            for ch, fi, fo in picks:
                d = dict(c)
                d.update({"chunk": ch, "final": fi, "forge": fo})
                cases.append(d)
        n_enum = len(cases)
        # honest transcripts of random larger trees, recorded from the real responder, then mutated
        rcases = random_cases(seed + 5, 150 if tier == "quick" else 2000, 9)
        for c in rcases:
            c.update({"userSkip": 0, "ignore": [], "keyed": False, "adv": False, "script": []})
        honest = run_cases(rcases, tmp, "honest")
        muts = []
        for ln in open(honest):
            rec = json.loads(ln)
            c, o = rec["case"], rec["obs"]
            items = [{"c": w["c"], "followed": w["act"] == "p", "blk": w["blk"]} for w in o["wire"]]
            nlab = max(c["cid"])
            for _ in range(4 if tier == "quick" else 10):
                it = items
                for _ in range(rng.choice([1, 1, 2, 3])):
                    it = mutate(rng, it, nlab)
                d = dict(c)
                d.update({"adv": True, "sr": [], "script": it, "chunk": rng.choice(["all", "one"]),
                          "final": rng.choice(["full", "failed", "none"]), "forge": rng.random() < 0.5})
                muts.append(d)
        cases += muts
        for c in cases:
            c.setdefault("userSkip", 0)
        obsfile = run_cases(cases, tmp, "adv")
        verdicts, ores = oracle(obsfile, "OracleSound.cfg")
        states += ores.distinct + res.distinct
        if len(verdicts) != len(cases):
            raise Infra("oracle judged %d of %d cases" % (len(verdicts), len(cases)))
        lines = open(obsfile).read().splitlines()
        n_nontrivial = 0
        for ln in lines:
            o = json.loads(ln)["obs"]
            if o["delivered"]:
                n_nontrivial += 1
        for x in verdicts:
            if not x["c01"]:
                rec = json.loads(lines[x["id"] - 1])
                o = rec["obs"]
                kind = "bad-hash" if o["badHash"] else "foreign-or-unvisited-write" if set(o["writes"]) - {rec["case"]["cid"][i - 1] for i in o["delivered"]} else "delivery"
                v.violation("unsound:" + kind, "script %s on case %s: %s" % (json.dumps(rec["case"]["script"]), json.dumps({k: rec["case"][k] for k in ("n", "par", "cid", "sl")}), json.dumps(o)[:400]), rec)
        cov = {"states": states, "transitions": trans, "traces_validated_against_impl": len(cases),
               "samples": [json.loads(lines[len(lines) // 3])["case"]], "exhaustive": tier == "thorough",
               "scripts_enumerated_by_tlc": n_enum, "scripts_mutated_honest": len(muts), "runs_with_some_delivery": n_nontrivial,
               "rule": "every link tree <= 3 visits x every requestor store x every responder script of <= 2 items over (any label or a foreign block) x (followed?) x (genuine block attached?), "
                       "x delivery variants (one message / one per item; final full/failed/none; forged bytes under the claimed CID); plus mutated honest transcripts of random trees up to 9 visits"}
        return v.finish(cov, ["TLC", "blocks reach the requestor through the real v2 codec (CID recomputed from bytes)", "hash of every committed write recomputed by the harness"])
    finally:
        shutil.rmtree(tmp, ignore_errors=True)


def run(pid, tier, seed):
    if pid == "C01":
        return run_adv(pid, tier, seed)
    if pid == "C07":
        return run_budget(pid, tier, seed)
    if pid == "C06":
        return run_pause(pid, tier, seed)
    v = Verdict(pid, tier, seed, "model_checking")
    tmp = tempfile.mkdtemp(prefix="vexch-")
    try:
        # 1. the design is right (exhaustive, Dev = {})
        dcfg = "ExchDesign3.cfg" if tier == "quick" else "ExchDesign4.cfg"
        r = tlc_must_pass(run_tlc("Exchange", "Exchange.tla", dcfg, workers=NCPU, timeout=3000), dcfg)
        states, trans = r.distinct, r.generated
        runs = [{"cfg": dcfg, "distinct": r.distinct, "generated": r.generated}]
        # 2. cases: TLC-enumerated small scope + seeded random larger ones
        maxn = 4 if tier == "quick" else 5
        cases, cres = tlc_cases(maxn, tmp)
        states += cres.distinct
        ocases, ores0 = tlc_cases(3, tmp, opts=True)     # every combination of caller-supplied extensions, <= 3 visits
        cases += ocases
        states += ores0.distinct
        n_enum = len(cases)
        nrand = 300 if tier == "quick" else 5000
        cases += random_cases(seed, nrand, 9 if tier == "quick" else 12)
        obsfile = run_cases(cases, tmp, "main")
        # 3. judge against the reference
        verdicts, ores = oracle(obsfile, "OracleRef.cfg")
        states += ores.distinct
        if len(verdicts) != len(cases):
            raise Infra("oracle judged %d of %d cases" % (len(verdicts), len(cases)))
        key = KEY[pid]
        bad_ids = sorted(x["id"] for x in verdicts if not x[key])
        n_na = sum(1 for x in verdicts if x.get("na02")) if pid == "C02" else 0
        obs_lines = open(obsfile).read().splitlines()
        explained = {}
        if bad_ids:
            # 4. classification: implementation-shaped model with the code's deviations
            sub = os.path.join(tmp, "bad.ndjson")
            with open(sub, "w") as f:
                for i in bad_ids:
                    f.write(obs_lines[i - 1] + "\n")
            cfg = write_impl_cfg()
            try:
                impl, ires = oracle(sub, cfg)
            finally:
                os.remove(os.path.join(SPECS, "Exchange", cfg))
            states += ires.distinct
            trans += ires.generated
            for x in impl:
                if x["match"] and x["dev"]:
                    explained.setdefault(x["id"], set()).add("+".join(sorted(x["dev"])))
        for i in bad_ids:
            rec = json.loads(obs_lines[i - 1])
            devs = explained.get(i)
            if pid == "C02" and devs and len(devs) == 1:
                sig = "DEV_" + next(iter(devs))
            else:
                o = rec["obs"]
                sig = "unexplained:" + ("hang" if o["hang"] else "fatal" if o["otherErrs"] else "result-differs")
            v.violation(sig, "case %s: observation %s" % (json.dumps(rec["case"]), json.dumps(rec["obs"])[:400]), rec)
        sample = json.loads(obs_lines[min(len(obs_lines) - 1, 4000)])
        cov = {"states": states, "transitions": trans, "traces_validated_against_impl": len(cases),
               "samples": [sample], "exhaustive": True, "model_runs": runs,
               "cases_enumerated_by_tlc": n_enum, "cases_random": nrand, "max_visits_enumerated": maxn,
               "cases_not_applicable_root_refused": n_na, "nonconforming": len(bad_ids),
               "rule": "every initial state of Exchange.tla with <= %d link visits (tree shape x path depths x labeling with shared blocks x every store split), "
                       "every combination of do-not-send-first-blocks 0..N+1 x do-not-send-cids subsets x dedup key for <= 3 visits, "
                       "plus seeded random trees up to %d visits; each realised as dag-cbor/raw blocks and exchanged between real GraphSync nodes; judged by ExchangeOracle.tla" % (maxn, 9 if tier == "quick" else 12)}
        return v.finish(cov, ["TLC", "go-ipld-prime traversal defines the link tree of a DAG + selector",
                              "verifnet (in-process network through the real v2 codec)",
                              "selector: explore-all recursive; other selector shapes only change the link tree",
                              "C02 is not demanded when the responder lacks the root and answers content-not-found (C03/C04 govern)"])
    finally:
        shutil.rmtree(tmp, ignore_errors=True)
