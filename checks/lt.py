"""C19: LinkTracker.  Exhaustive TLC on LinkTracker.tla; B1 replay of complete abstract graphs
through the exported ResponseAssembler stream API (send decision, index, completeness, wire
content of each transaction, emptiness of tracking state via the verif accessor)."""
import json, os, tempfile, shutil
from vlib import *
from graphutil import emit_graph

GRAPHS = {
    "3req-1link": {"Reqs": '{"r1","r2","r3"}', "Links": '{"x"}', "Keys": '{"k1"}', "MaxTrav": 1, "MaxSkip": 1},
    "2req-2link": {"Reqs": '{"r1","r2"}', "Links": '{"x","y"}', "Keys": '{"k1"}', "MaxTrav": 1, "MaxSkip": 1},
    "2req-2key": {"Reqs": '{"r1","r2"}', "Links": '{"x"}', "Keys": '{"k1","k2"}', "MaxTrav": 2, "MaxSkip": 2},
    "2req-2link-deep": {"Reqs": '{"r1","r2"}', "Links": '{"x","y"}', "Keys": '{"k1"}', "MaxTrav": 2, "MaxSkip": 1},
    "3req-2link": {"Reqs": '{"r1","r2","r3"}', "Links": '{"x","y"}', "Keys": '{"k1"}', "MaxTrav": 1, "MaxSkip": 1},
}


def run(pid, tier, seed):
    v = Verdict(pid, tier, seed, "model_checking")
    tmp = tempfile.mkdtemp(prefix="vlt-")
    try:
        r = tlc_must_pass(run_tlc("LinkTracker", "LinkTracker.tla", "LinkTrackerExh.cfg", workers=NCPU), "LinkTracker exhaustive")
        states, trans = r.distinct, r.generated
        runs = [{"cfg": "LinkTrackerExh", "distinct": r.distinct, "generated": r.generated}]
        names = ["3req-1link", "2req-2link", "2req-2key"] if tier == "quick" else list(GRAPHS)
        n_edges = 0
        n_walks = 0
        samples = []
        for g in names:
            ef, res, n = emit_graph("LinkTracker", "LinkTrackerGraph.tla", GRAPHS[g],
                                    ["RefsExact", "NoStateWhenIdle", "NoOrphanScope"], tmp, g.replace("-", "_"), timeout=3000)
            states += res.distinct
            trans += res.generated
            runs.append({"cfg": "LinkTrackerGraph/" + g, "distinct": res.distinct, "edges": n})
            walks = 20000 if tier == "quick" else 400000
            out = json.loads(run_vh(["lt-replay", "--edges", ef, "--walks", walks, "--seed", seed * 100 + len(runs)]).stdout)
            n_walks += out["walks"]
            os.remove(ef)
            n_edges += out["edges"]
            if out.get("samples") and len(samples) < 2:
                samples.append({"graph": g, "case": out["samples"][0]})
            for mm in (out["mismatches"] or []):
                act = json.dumps(mm["act"])
                op = mm["act"].get("op")
                sig = "%s:%s" % (op, mm["what"].split(":")[0][:60].replace(" ", "_"))
                v.violation(sig, "graph %s: %s; act=%s want=%s got=%s after path of %d calls" % (
                    g, mm["what"], act, json.dumps(mm["want"]), json.dumps(mm["got"]), len(mm["path"])),
                    {"graph": g, "consts": GRAPHS[g], **mm})
        cov = {"states": states, "transitions": trans, "traces_validated_against_impl": n_edges + n_walks, "b1_edges": n_edges, "b1_random_walks": n_walks,
               "samples": samples or [{"note": "none"}], "exhaustive": True, "model_runs": runs,
               "rule": "every transition of each complete abstract link-tracker graph (along its BFS path) plus seeded random walks through the same TLC graph, replayed through ResponseAssembler.NewStream(...) on a fresh assembler; "
                       "compared: send decision (BlockSizeOnWire and actual message content), block index, finish status, memory requested, tracker emptiness"}
        return v.finish(cov, ["TLC", "verif-only accessor ResponseAssembler.VerifTrackerIdle", "prepareQuery call order (key, ignore list, skip) as modelled"])
    finally:
        shutil.rmtree(tmp, ignore_errors=True)
