"""C18: Publisher.  Exhaustive TLC on Publisher.tla (concurrent callers + FIFO processor, safety
and liveness); B1 replay of the sequential call graph on the real publisher with a fence barrier
after every call, random walks, and burst walks (calls back to back, one barrier at the end)."""
import json, os, tempfile, shutil
from vlib import *
from graphutil import emit_graph

GRAPHS = {
    "2x2": {"Topics": '{"t1","t2"}', "Subs": '{"s1","s2"}', "MaxCmds": 100000000, "MaxQueue": 3},
    "3x2": {"Topics": '{"t1","t2","t3"}', "Subs": '{"s1","s2"}', "MaxCmds": 100000000, "MaxQueue": 3},
    "2x3": {"Topics": '{"t1","t2"}', "Subs": '{"s1","s2","s3"}', "MaxCmds": 100000000, "MaxQueue": 3},
}


def run(pid, tier, seed):
    v = Verdict(pid, tier, seed, "model_checking")
    tmp = tempfile.mkdtemp(prefix="vpub-")
    try:
        r = tlc_must_pass(run_tlc("Publisher", "Publisher.tla", "PublisherExh.cfg" if tier == "quick" else "PublisherExhBig.cfg",
                                   workers=NCPU, timeout=3000), "Publisher exhaustive")
        states, trans = r.distinct, r.generated
        runs = [{"cfg": "PublisherExh", "distinct": r.distinct, "generated": r.generated}]
        names = ["2x2", "3x2"] if tier == "quick" else list(GRAPHS)
        n_edges = n_walks = n_bursts = 0
        samples = []
        for g in names:
            ef, res, n = emit_graph("Publisher", "PublisherGraph.tla", GRAPHS[g], ["DeliveryExact", "InOrder"], tmp, g)
            states += res.distinct
            trans += res.generated
            runs.append({"cfg": "PublisherGraph/" + g, "distinct": res.distinct, "edges": n})
            walks, bursts = (1500, 3000) if tier == "quick" else (20000, 60000)
            out = json.loads(run_vh(["pub-replay", "--edges", ef, "--walks", walks, "--bursts", bursts, "--seed", seed * 100 + len(runs)]).stdout)
            n_edges += out["edges"]
            n_walks += out["walks"]
            n_bursts += out["bursts"]
            if out.get("samples") and len(samples) < 2:
                samples.append({"graph": g, "case": out["samples"][0]})
            for mm in (out["mismatches"] or []):
                op = (mm.get("act") or {}).get("op", "burst")
                sig = "%s:%s" % (op, mm["what"].split(":")[0][:70].replace(" ", "_"))
                v.violation(sig, "graph %s: %s; act=%s want=%s got=%s after %d calls" % (
                    g, mm["what"], json.dumps(mm.get("act")), json.dumps(mm.get("want"))[:300], json.dumps(mm.get("got"))[:300], len(mm["path"] or [])),
                    {"graph": g, "consts": GRAPHS[g], **mm})
        cov = {"states": states, "transitions": trans, "traces_validated_against_impl": n_edges + n_walks + n_bursts,
               "b1_edges": n_edges, "b1_random_walks": n_walks, "b1_burst_walks": n_bursts,
               "samples": samples or [{"note": "none"}], "exhaustive": True, "model_runs": runs,
               "rule": "every transition of the sequential publisher call graph, random walks with a fence after every call, and burst walks "
                       "(no fence until the end; per (subscriber, topic) callback history compared with the model's)"}
        return v.finish(cov, ["TLC", "fence subscriber: FIFO command processing makes a later publish on a private topic a barrier",
                              "after Shutdown: wait for the model-predicted number of closes, then 2 ms settle"])
    finally:
        shutil.rmtree(tmp, ignore_errors=True)
