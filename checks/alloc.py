"""C13 / C14: Allocator.  Exhaustive TLC on Allocator.tla; B1 replay of the complete abstract
state graph (AllocatorGraph) against the real allocator under several byte scales; B3 validation
of seeded random histories by AllocatorTrace.  A rejected history/edge is attributed to C13 when
the observation-level judge AllocatorObs finds accounting/limit damage, else to C14."""
import json, os, tempfile, shutil
from vlib import *

GRAPH_CFGS = {
    # name: (peers, amounts, maxtotal, maxpeer, maxpend)
    "small": ('{"a","b"}', "{1,2}", 3, 2, 2),
    "peer>total": ('{"a","b"}', "{1,2,3}", 2, 3, 2),
    "mid": ('{"a","b"}', "{1,2,3}", 4, 3, 2),
    "three": ('{"a","b","c"}', "{1,2}", 3, 2, 1),
    "three-big": ('{"a","b","c"}', "{1,2,3}", 5, 3, 2),
}
SCALES_QUICK = [1, 1 << 20, 1 << 62]
TRACE_CFGS = [(4, 3, 3, 3), (10, 4, 6, 4), (3, 5, 4, 2), (100, 7, 9, 4)]  # maxtotal, maxpeer, maxamt, peers


def write_cfg(path, body):
    with open(path, "w") as f:
        f.write(body)


def graph_edges(name, tmp):
    peers, amts, mt, mp, mpend = GRAPH_CFGS[name]
    cfg = "AllocatorGraph_%s.cfg" % name.replace(">", "gt").replace("-", "_")
    body = ("CONSTANTS Peers = %s Amounts = %s MaxTotal = %d MaxPeer = %d MaxOps = 100000000 MaxPend = %d\n"
            "INIT GInit\nNEXT GNext\nINVARIANTS Limits NoGrantableWaiting PendConsistent AllReleasedZero\n"
            "VIEW GView\nACTION_CONSTRAINT Emit\nCHECK_DEADLOCK FALSE\n") % (peers, amts, mt, mp, mpend)
    write_cfg(os.path.join(SPECS, "Allocator", cfg), body)
    try:
        res = tlc_must_pass(run_tlc("Allocator", "AllocatorGraph.tla", cfg, workers=1), "AllocatorGraph " + name)
    finally:
        os.remove(os.path.join(SPECS, "Allocator", cfg))
    edges = res.printed()
    ef = os.path.join(tmp, "edges-%s.ndjson" % cfg)
    with open(ef, "w") as f:
        for e in edges:
            f.write(e + "\n")
    return ef, res, mt, mp


def obs_judge(tracefile, mt, mp, peers):
    """Returns list of C13-level problems found on the observations of tracefile."""
    cfg = "AllocatorObs_run.cfg"
    write_cfg(os.path.join(SPECS, "Allocator", cfg),
              "CONSTANTS MaxTotal = %d MaxPeer = %d Peers = %s\nINIT Init\nNEXT Next\nINVARIANT PrintWhenDone\nCHECK_DEADLOCK FALSE\n" % (mt, mp, peers))
    try:
        res = tlc_must_pass(run_tlc("Allocator", "AllocatorObs.tla", cfg, workers=1, env={"VERIF_TRACE": tracefile}), "AllocatorObs")
    finally:
        os.remove(os.path.join(SPECS, "Allocator", cfg))
    for ln in res.printed():
        d = json.loads(ln)
        if "obsbad" in d:
            return d["obsbad"]
    raise Infra("AllocatorObs printed no report")


def trace_validate(tracefile, mt, mp, peers):
    """Returns (accepted, highwater, states)."""
    cfg = "AllocatorTrace_run.cfg"
    write_cfg(os.path.join(SPECS, "Allocator", cfg),
              ("CONSTANTS MaxTotal = %d MaxPeer = %d Peers = %s\nINIT TraceInit\nNEXT TraceNext\nCONSTRAINT HighWater\n"
               "INVARIANTS Limits Conservation NoGrantableWaiting PendConsistent AllReleasedZero\nPOSTCONDITION Accepted\nCHECK_DEADLOCK FALSE\n") % (mt, mp, peers))
    try:
        res = run_tlc("Allocator", "AllocatorTrace.tla", cfg, workers=1, env={"VERIF_TRACE": tracefile})
    finally:
        os.remove(os.path.join(SPECS, "Allocator", cfg))
    import re
    m = re.search(r'<<"HIGHWATER", (\d+), (\d+)>>', res.out)
    if not m:
        if res.violation:   # a model invariant failed on the inferred state: cannot happen unless spec broken
            raise Infra("AllocatorTrace: model invariant %s violated while following a real trace\n%s" % (res.violation, res.out[-2000:]))
        raise Infra("AllocatorTrace produced no high-water mark\n" + res.out[-3000:])
    hw, n = int(m.group(1)), int(m.group(2))
    return hw == n + 1, hw, res


def split_histories(lines):
    hs, cur = [], None
    for ln in lines:
        if json.loads(ln)["op"] == "reset":
            cur = [ln]
            hs.append(cur)
        else:
            cur.append(ln)
    return hs


def run(pid, tier, seed):
    v = Verdict(pid, tier, seed, "model_checking")
    tmp = tempfile.mkdtemp(prefix="valloc-")
    states = trans = 0
    try:
        # 1. exhaustive model check of the design (ghosts, action properties)
        r = tlc_must_pass(run_tlc("Allocator", "Allocator.tla", "AllocatorExh.cfg" if tier == "quick" else "AllocatorExhBig.cfg",
                                   workers=NCPU), "Allocator exhaustive")
        states += r.distinct
        trans += r.generated
        model_runs = [{"cfg": "AllocatorExh", "distinct": r.distinct, "generated": r.generated}]
        rejected = []   # (kind, cfgdesc, mt, mp, peers, history-lines)
        # 2. B1: replay every edge of the complete abstract graph on the real allocator
        # ("three-big" has tens of millions of edges: its replay does not fit in a run; it stays available for manual use)
        graphs = ["small", "peer>total", "three"] if tier == "quick" else ["small", "peer>total", "mid", "three"]
        scales = SCALES_QUICK if tier == "quick" else SCALES_QUICK + [1000, (1 << 62) + 12345]
        n_edges = 0
        samples = []
        for g in graphs:
            ef, res, mt, mp = graph_edges(g, tmp)
            states += res.distinct
            trans += res.generated
            model_runs.append({"cfg": "AllocatorGraph/" + g, "distinct": res.distinct, "edges": res.generated - 1})
            for sc in scales:
                if mt * sc >= 1 << 64 or mp * sc >= 1 << 64:
                    continue
                out = json.loads(run_vh(["alloc-replay", "--edges", ef, "--maxtotal", mt, "--maxpeer", mp, "--scale", sc]).stdout)
                n_edges += out["edges"]
                if not samples and out.get("samples"):
                    samples = [{"graph": g, "scale": sc, "edge": out["samples"][0]}]
                for mm in (out["mismatches"] or []):
                    rejected.append(("edge", "graph=%s scale=%d" % (g, sc), mt, mp, GRAPH_CFGS[g][0], mm, sc))
        # 3. B3: random histories validated by the trace spec
        nh, nops = (60, 40) if tier == "quick" else (400, 100)
        n_hist = 0
        n_events = 0
        for i, (mt, mp, ma, npeers) in enumerate(TRACE_CFGS):
            tf = os.path.join(tmp, "trace%d.ndjson" % i)
            run_vh(["alloc-trace", "--seed", seed * 1000 + i, "--histories", nh, "--ops", nops, "--maxtotal", mt,
                    "--maxpeer", mp, "--maxamt", ma, "--peers", npeers, "--out", tf])
            peers = "{" + ",".join('"%s"' % p for p in "abcd"[:npeers]) + "}"
            lines = open(tf).read().splitlines()
            hs = split_histories(lines)
            n_hist += len(hs)
            n_events += len(lines)
            guard = 0
            while hs and guard < 10:
                guard += 1
                cur = os.path.join(tmp, "cur.ndjson")
                with open(cur, "w") as f:
                    for h in hs:
                        f.write("\n".join(h) + "\n")
                ok, hw, res = trace_validate(cur, mt, mp, peers)
                states += res.distinct
                trans += res.generated
                if ok:
                    break
                # find the history containing line hw (1-based line that could not be matched)
                pos = 0
                for k, h in enumerate(hs):
                    if pos + len(h) >= hw:
                        rejected.append(("history", "limits=%d/%d line=%d" % (mt, mp, hw - pos), mt, mp, peers, h, 1))
                        hs = hs[k + 1:]
                        break
                    pos += len(h)
        # 4. attribute every rejection
        c13_hits = c14_hits = 0
        for kind, desc, mt, mp, peers, payload, sc in rejected:
            if kind == "edge":
                # real observation of the mismatching step cannot be re-serialised as a full history
                # cheaply: classify from the observation directly
                e, got = payload["edge"], payload["got"]
                what = payload["what"]
                s = sum(got["alloc"].values())
                c13 = (got["total"] != s or s > mt * sc or any(x > mp * sc for x in got["alloc"].values())
                       or "Stats" in what or "non-multiple" in what or "source state" in what)
                # accounting: per-peer totals must equal model's whenever resolutions agree
                if not c13 and "post-state" in what:
                    c13 = [[w["peer"], w["amt"]] for w in (got.get("pend") or [])] == [[w["peer"], w["amt"]] for w in e["to"]["pend"]]
                sig = "edge:%s:%s" % (e["act"]["op"], what.split(":")[0].replace(" ", "_"))
                replay = {"kind": "edge", "cfg": desc, "maxtotal": mt, "maxpeer": mp, "path": payload["path"], "edge": e, "real": got, "what": what}
            else:
                tf = os.path.join(tmp, "rej.ndjson")
                with open(tf, "w") as f:
                    f.write("\n".join(payload) + "\n")
                probs = obs_judge(tf, mt, mp, peers)
                c13 = len(probs) > 0
                what = "; ".join(sorted({p["what"] for p in probs})) or "grant timing/order differs from the drain rule"
                sig = "history:" + what.replace(" ", "_")[:80]
                replay = {"kind": "history", "cfg": desc, "maxtotal": mt, "maxpeer": mp, "peers": peers, "history": [json.loads(x) for x in payload], "what": what}
            target = "C13" if c13 else "C14"
            if target == "C13":
                c13_hits += 1
            else:
                c14_hits += 1
            if target == pid:
                v.violation(sig, "%s (%s): %s" % (kind, desc, what), replay)
        if not samples:
            samples = [{"note": "no edge sample"}]
        cov = {"states": states, "transitions": trans, "traces_validated_against_impl": n_edges + n_hist,
               "samples": samples, "exhaustive": True,
               "model_runs": model_runs, "b1_edges_replayed": n_edges, "b1_scales": scales,
               "b3_histories": n_hist, "b3_events": n_events,
               "rejections_attributed": {"C13": c13_hits, "C14": c14_hits},
               "rule": "B1: every transition of the complete abstract allocator graph (VIEW = per-peer totals + waiting list) "
                       "replayed on a fresh real allocator at each byte scale; B3: seeded random histories validated by AllocatorTrace"}
        return v.finish(cov, ["TLC", "AllocatorObs attribution rule: accounting/limit damage => C13, otherwise C14"])
    finally:
        shutil.rmtree(tmp, ignore_errors=True)
