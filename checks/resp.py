"""C05 / C10 / C23 (responder side): Responder.tla checked by TLC (Retired, ProtSane, QInert,
StateAgreesWithQueue for the design, and a counterexample for each named deviation);
ResponderScripts.tla enumerates every environment script (new request with each request-hook
decision, cancels from the requestor P and from a second peer Q using the same request id, a new
request from Q with the same id, responder Cancel/Pause/Unpause, block-hook decisions and the
outcome of every send, each placed at a point where the harness holds the real executor); each
script is replayed on a real GraphSync responder on verifnet and ResponderOracle.tla judges the
observables at quiescence."""
import json, os, tempfile, shutil, random
from vlib import *

GOENV = {"GOLOG_LOG_LEVEL": "fatal"}
PROBLEM_KEY = {"C05": "c05", "C10": "c10", "C23": "c23", "C21": "c21"}
QEV = ("qnew",)


def is_q(e):
    return e["ev"] == "qnew" or (e["ev"] == "cancel" and e["a"] == "Q") or (e["ev"] == "update" and e["a"].startswith("Q"))


def scripts(maxenv, timeout=3000):
    cfg = "RespScripts_run.cfg"
    p = os.path.join(SPECS, "Responder", cfg)
    with open(p, "w") as f:
        f.write("CONSTANTS K = 2 Dev = {} MaxEnv = %d\nINIT SInit\nNEXT SNext\nINVARIANT Emit\nCHECK_DEADLOCK FALSE\n" % maxenv)
    try:
        res = tlc_must_pass(run_tlc("Responder", "ResponderScripts.tla", cfg, workers=1, timeout=timeout), "ResponderScripts")
    finally:
        os.remove(p)
    s = {}
    for x in res.printed():
        d = json.loads(x)
        key = json.dumps(d["script"])
        s.setdefault(key, [])
        if d["final"] not in s[key]:
            s[key].append(d["final"])
    return s, res


def design_checks(tier):
    """TLC on the design and on each named deviation (the deviations must break a property, else the model is vacuous)."""
    states = trans = 0
    r = tlc_must_pass(run_tlc("Responder", "Responder.tla", "RespDesign.cfg" if tier == "quick" else "RespDesign6.cfg", workers=NCPU, timeout=3000), "Responder design")
    states, trans = r.distinct, r.generated
    for dev, prop in (("KeyedByIdOnly", None), ("NetErrSignalAfterLastBlock", None)):
        cfg = "RespDev_run.cfg"
        p = os.path.join(SPECS, "Responder", cfg)
        with open(p, "w") as f:
            f.write('CONSTANTS K = 2 Dev = {"%s"} MaxEnv = 4\nSPECIFICATION Spec\nINVARIANTS Retired ProtSane StateAgreesWithQueue\nPROPERTIES QInert\nCHECK_DEADLOCK FALSE\n' % dev)
        try:
            d = run_tlc("Responder", "Responder.tla", cfg, workers=NCPU, timeout=3000)
        finally:
            os.remove(p)
        if not d.violation:
            raise Infra("deviation %s no longer breaks a property of Responder.tla: the model has become vacuous\n%s" % (dev, d.out[-1500:]))
    return states, trans


def run(pid, tier, seed):
    v = Verdict(pid, tier, seed, "model_checking")
    cov, assumptions = collect(pid, tier, seed, v)
    return v.finish(cov, assumptions)


def collect(pid, tier, seed, v):
    tmp = tempfile.mkdtemp(prefix="vresp-")
    try:
        states, trans = design_checks(tier)
        design, sres = scripts(2)
        states += sres.distinct
        trans += sres.generated
        rng = random.Random(seed)
        allkeys = sorted(design)
        n2 = len(allkeys)
        if tier == "quick":
            # all scripts with at most one environment event, plus a seeded sample of those with two
            def nenv(k):
                return sum(1 for e in json.loads(k) if e["ev"] in ("new", "cancel", "qnew", "cmdcancel", "pause", "sendfail", "update"))
            base = [k for k in allkeys if nenv(k) <= 1]
            rest = [k for k in allkeys if nenv(k) > 1]
            # scripts that place messages between a worker's pop and the manager's start of the task: the shortest ones always
            popped = sorted((k for k in rest if any(e["at"] == "popped" and e["ev"] != "start" for e in json.loads(k))), key=lambda k: (len(json.loads(k)), k))
            # ... and scripts that let the final message go out (or fail) before the manager hears that the task is finished
            finishing = sorted((k for k in rest if any(e["at"] == "finishing" and e["ev"] != "finish" for e in json.loads(k))), key=lambda k: (len(json.loads(k)), k))
            # ... and scripts with updates from the requestor (handled in the loop for a paused response, by the executor otherwise)
            updates = sorted((k for k in rest if any(e["ev"] in ("update", "updhook") for e in json.loads(k))), key=lambda k: (len(json.loads(k)), k))
            rng.shuffle(rest)
            keys = base + popped[:250] + finishing[:250] + updates[:250] + (rest[:800] if pid != "C21" else [])
        else:
            # thorough: every script with at most one environment event, every script that places events between pop and start or
            # between the last transaction and the finish, and a seeded sample of 15000 of the rest (the full set of two-event
            # scripts is about 80 000; three-event scripts are not enumerated: their number exceeds what one run can replay)
            def nenv(k):
                return sum(1 for e in json.loads(k) if e["ev"] in ("new", "cancel", "qnew", "cmdcancel", "pause", "sendfail", "update"))
            base = [k for k in allkeys if nenv(k) <= 1]
            rest = [k for k in allkeys if nenv(k) > 1]
            special = [k for k in rest if any(e["at"] in ("popped", "finishing", "updhook") and e["ev"] not in ("start", "finish") for e in json.loads(k))]
            sp = set(special)
            rest = [k for k in rest if k not in sp]
            rng.shuffle(rest)
            rng.shuffle(special)
            keys = base + special[:6000] + (rest[:15000] if pid != "C21" else [])
        # baselines (scripts without Q's messages) must be part of the run
        ks = set(keys)
        for k in list(keys):
            sc = json.loads(k)
            if any(is_q(e) for e in sc):
                b = json.dumps([e for e in sc if not is_q(e)])
                if b in design and b not in ks:
                    ks.add(b)
                    keys.append(b)
        keys = sorted(ks)
        cases, index = [], {}
        for i, k in enumerate(keys):
            cases.append({"id": i + 1, "script": json.loads(k), "finals": design[k]})
            index[json.dumps(json.loads(k), sort_keys=True)] = i
        # a send failure after which the sender cannot be opened again either is the same event for the model (the message failed):
        # every second script with a send failure is also run that way
        extra = []
        for c in cases:
            if any(e["ev"] == "sendfail" for e in c["script"]) and not any(is_q(e) for e in c["script"]) and c["id"] % 2 == 0:
                extra.append({"id": len(cases) + len(extra) + 1, "script": c["script"], "finals": c["finals"], "noReopen": True})
        cases += extra
        def judge(cs, tag):
            """replay the scripts cs (renumbered 1..n) on the real responder and let the oracle judge them"""
            cs = [dict(c, id=i + 1) for i, c in enumerate(cs)]
            idx = {json.dumps(c["script"], sort_keys=True): i for i, c in enumerate(cs)}
            inp, outp = os.path.join(tmp, tag + "-scripts.ndjson"), os.path.join(tmp, tag + "-obs.ndjson")
            with open(inp, "w") as f:
                for c in cs:
                    f.write(json.dumps(c) + "\n")
            run_vh(["resp-run", "--in", inp, "--out", outp], env=GOENV, timeout=7200)
            rs = [json.loads(l) for l in open(outp)]
            judged = os.path.join(tmp, tag + "-judge.ndjson")
            with open(judged, "w") as f:
                for rec in rs:
                    sc = rec["case"]["script"]
                    has_q = any(is_q(e) for e in sc)
                    bi = idx.get(json.dumps([e for e in sc if not is_q(e)], sort_keys=True))
                    rec["hasQ"] = has_q
                    rec["hasBaseline"] = has_q and bi is not None and not rs[bi]["obs"]["desync"]
                    rec["baseline"] = rs[bi]["obs"] if rec["hasBaseline"] else rec["obs"]
                    f.write(json.dumps(rec) + "\n")
            ores = tlc_must_pass(run_tlc("Responder", "ResponderOracle.tla", "RespOracle.cfg", workers=1, env={"VERIF_CASES": judged}, timeout=7200), "ResponderOracle")
            vs = [json.loads(x) for x in ores.printed()]
            if len(vs) != len(cs):
                raise Infra("oracle judged %d of %d scripts" % (len(vs), len(cs)))
            return rs, vs, ores.distinct
        recs, verdicts, ost = judge(cases, "all")
        states += ost
        # a difference from the baseline run must be reproducible: both runs are repeated twice
        BASE = "outcome-differs-from-run-without-second-peer"
        suspects = [x["id"] - 1 for x in verdicts if BASE in x["c10"] and not x["desync"]]
        n_unconfirmed = 0
        if pid == "C10" and suspects:
            sub, seen = [], set()
            for i in suspects[:300]:
                for sc in (cases[i]["script"], [e for e in cases[i]["script"] if not is_q(e)]):
                    k = json.dumps(sc, sort_keys=True)
                    if k not in seen:
                        seen.add(k)
                        sub.append(cases[index[k]])
            persistent = set(json.dumps(cases[i]["script"], sort_keys=True) for i in suspects[:300])
            for rnd in range(2):
                rs2, vs2, _ = judge(sub, "confirm%d" % rnd)
                still = set(json.dumps(rs2[x["id"] - 1]["case"]["script"], sort_keys=True) for x in vs2 if BASE in x["c10"] and not x["desync"])
                persistent &= still
            for x in verdicts:
                if BASE in x["c10"] and json.dumps(cases[x["id"] - 1]["script"], sort_keys=True) not in persistent:
                    x["c10"].remove(BASE)
                    n_unconfirmed += 1
        n_mismatch = n_desync = 0
        key = PROBLEM_KEY[pid]
        for x in verdicts:
            rec = recs[x["id"] - 1]
            if x["desync"]:
                n_desync += 1
            elif not x["conforms"]:
                n_mismatch += 1
            for prob in x[key]:
                if x["desync"] and prob == "outcome-differs-from-run-without-second-peer":
                    continue    # the real run left the script: the baseline is not comparable
                v.violation(prob, "script %s: real observables %s; design model reaches %s" % (
                    json.dumps(rec["case"]["script"]), json.dumps(rec["obs"])[:600], json.dumps(rec["case"]["finals"])[:300]), rec)
        with_q = sum(1 for c in cases if any(is_q(e) for e in c["script"]))
        cov = {"states": states, "transitions": trans, "traces_validated_against_impl": len(cases),
               "samples": [cases[len(cases) // 2]["script"], cases[len(cases) // 3]["script"]], "exhaustive": False,
               "scripts_two_env_events": n2, "scripts_total": len(cases), "scripts_with_second_peer": with_q, "scripts_with_baseline": sum(1 for rec in recs if rec["hasBaseline"]),
               "spec_mismatch": n_mismatch, "desync": n_desync, "baseline_differences_not_reproduced": n_unconfirmed,
               "rule": "behaviours of ResponderScripts.tla with K=2 blocks and <= 2 environment events (quick: about 2 600, thorough: about 20 000 of them) projected on the "
                       "environment script; each replayed on the real responder with gates (storage read of the next block, outgoing block hook, network send) "
                       "holding it at the script's points"}
        if not v.new and not v.known_hit and n_desync > len(cases) // 4:
            raise Infra("too many scripts the real code did not follow (%d desync of %d): model or harness out of date" % (n_desync, len(cases)))
        return cov, (["TLC", "verifnet raw peers", "stable points reached via gates in user callbacks and the send policy, plus settle waits",
                              "after the script every paused response is unpaused and every send succeeds (proviso of C05)"])
    finally:
        shutil.rmtree(tmp, ignore_errors=True)


if __name__ == "__main__":
    pid, tier, seed, _ = seed_tier(sys.argv[1:])
    try:
        sys.exit(run(pid, tier, seed))
    except Infra as e:
        log("INFRA:", e)
        sys.exit(2)
