"""C22: Panics.tla lists where per-request user code runs and which of those goroutines recover; TLC
checks Contained for the design and shows the code-as-found deviation breaking it, and enumerates the
fault placements (side x site x k-th call).  Each placement is run in its own child process on two real
GraphSync nodes with a second request running next to the faulty one; PanicsOracle.tla judges."""
import json, os, tempfile, shutil, subprocess
from concurrent.futures import ThreadPoolExecutor
from vlib import *


def run(pid, tier, seed):
    v = Verdict(pid, tier, seed, "fault_enumeration")
    tmp = tempfile.mkdtemp(prefix="vpan-")
    try:
        k = 3 if tier == "quick" else 6
        cfg = os.path.join(SPECS, "Panics", "PanicsRun.cfg")
        with open(cfg, "w") as f:
            f.write("CONSTANTS K = %d Dev = {}\nSPECIFICATION Spec\nINVARIANTS Contained Emit\nPROPERTY Terminates\nCHECK_DEADLOCK FALSE\n" % k)
        try:
            r = tlc_must_pass(run_tlc("Panics", "Panics.tla", "PanicsRun.cfg", workers=1, timeout=600), "Panics design")
        finally:
            os.remove(cfg)
        d = run_tlc("Panics", "Panics.tla", "PanicsCode.cfg", workers=1, timeout=600)
        if d.violation != "Contained":
            raise Infra("StorageOutsideRecovery no longer breaks Contained in Panics.tla: the model has become vacuous")
        placements = []
        for x in r.printed():
            p = json.loads(x)
            if p not in placements:
                placements.append(p)
        placements.sort(key=lambda p: (p["side"], p["site"], p["at"]))
        exe = build_harness("verif")
        env = goenv()
        env["GOLOG_LOG_LEVEL"] = "fatal"

        def one(i):
            p = placements[i]
            try:
                cp = subprocess.run([exe, "panic-run", "--side", p["side"], "--site", p["site"], "--at", str(p["at"]), "--k", str(k)],
                                    capture_output=True, text=True, env=env, timeout=60)
            except subprocess.TimeoutExpired:
                return {"case": dict(p, id=i + 1), "crashed": False, "timeout": True, "obs": {"fired": True, "callback": 0, "targetErrs": [], "targetDone": False, "otherOK": False, "alive": True}, "stderr": "timeout"}
            obs = None
            for ln in cp.stdout.splitlines():
                if ln.startswith("{"):
                    obs = json.loads(ln)
            crashed = obs is None
            if crashed and "verif: injected panic" not in cp.stderr:
                raise Infra("panic-run died without the injected panic: %s" % cp.stderr[-1500:])
            return {"case": dict(p, id=i + 1), "crashed": crashed, "obs": obs or {"fired": True, "callback": 0, "targetErrs": [], "targetDone": False, "otherOK": False, "alive": False},
                    "stderr": cp.stderr[-600:] if crashed else ""}
        with ThreadPoolExecutor(max_workers=8) as ex:
            recs = list(ex.map(one, range(len(placements))))
        obsf = os.path.join(tmp, "obs.ndjson")
        with open(obsf, "w") as f:
            for rec in recs:
                f.write(json.dumps(rec) + "\n")
        ores = tlc_must_pass(run_tlc("Panics", "PanicsOracle.tla", "PanicsOracle.cfg", workers=1, env={"VERIF_CASES": obsf}, timeout=600), "PanicsOracle")
        verdicts = [json.loads(x) for x in ores.printed()]
        if len(verdicts) != len(placements):
            raise Infra("oracle judged %d of %d placements" % (len(verdicts), len(placements)))
        fired = 0
        for x in verdicts:
            rec = recs[x["id"] - 1]
            fired += 1 if x["fired"] else 0
            for prob in x["c22"]:
                c = rec["case"]
                v.violation(prob if prob.startswith("process-ended") else "%s:%s:%s" % (prob, c["side"], c["site"]),
                            "panic at call %d of %s on the %s side (%s goroutine): %s %s" % (c["at"], c["site"], c["side"], c["thread"], json.dumps(rec["obs"])[:300], rec["stderr"][:300]), rec)
        if fired < len(placements) // 2:
            raise Infra("only %d of %d placements actually raised their panic: harness out of date" % (fired, len(placements)))
        cov = {"evaluations": len(placements), "distinct_nontrivial": fired,
               "rule": "every fault placement of Panics.tla: side (requestor / responder) x site (prototype chooser, codec decoder, node reifier, storage read, storage write, "
                       "write committer; the responder has no writes) x k-th call for a block of the faulty request, k = 1..%d; one child process per placement; non-trivial = the panic was actually raised" % k,
               "samples": [recs[0]["case"], recs[len(recs) // 2]["case"]], "exhaustive": True,
               "states": r.distinct + ores.distinct, "placements_fired": fired}
        return v.finish(cov, ["TLC", "verifnet", "panics inside the selector walk itself are represented by the sites that run in the same recovered goroutine (chooser, decoder, reifier)",
                              "one child process per placement: a process that ends with the injected panic's trace is the observation 'crashed'"])
    finally:
        shutil.rmtree(tmp, ignore_errors=True)
