"""C15 / C16 (and the queue part of C17): MsgQueue.tla checked exhaustively by TLC with Dev = {};
every named deviation of the code is shown by TLC to break C15 or C16.  Bindings: TLC-enumerated
environment scripts (reservation / rest of the call / send ok / send failure / shutdown, two calls,
two requests) and directed scripts for each deviation class are replayed on the real stack
(response assembler + peer message manager + message queue + allocator) with gates in the
allocator, after the build and in SendMsg; ground truth of attachments comes from the verif hooks;
MsgQueueOracle.tla judges every run."""
import json, os, tempfile, shutil, random, subprocess
from concurrent.futures import ThreadPoolExecutor
from vlib import *

GOENV = {"GOLOG_LOG_LEVEL": "error"}
BIG = 300   # KB: two such blocks do not fit one 512 KiB message


def C(r, blk=0, ext=0, fin=False):
    return {"ev": "call", "r": r, "blk": blk, "ext": ext, "fin": fin}


def E(ev):
    return {"ev": ev, "r": "", "blk": 0, "ext": 0}


DIRECTED = {
    "ext-only-sent": [C("r1", 0, 1), E("sendok")],
    "ext-and-block-sent": [C("r1", 1, 1), E("sendok")],
    "ext-failed": [C("r1", 0, 1), E("sendfail")],
    "scrub-many-builders": [C("r1", BIG, 1), C("r1", BIG, 1), C("r1", BIG), C("r1", BIG), C("r1", BIG), E("sendfail")],
    "scrub-two-requests": [C("r1", BIG), C("r2", BIG), C("r1", BIG, 1), C("r2", BIG, 1), C("r1", BIG), E("sendfail"), E("sendok"), E("sendok")],
    "shutdown-between-build-and-signal": [E("gate-built"), C("r1", 1), E("shutdown"), E("wait-exit"), E("release-built")],
    "closed-after-reserve": [C("r1", 1), E("gate-alloc"), C("r1", 1), E("sendfail"), E("release-alloc")],
    "closed-after-reserve-ext": [C("r1", 1), E("gate-alloc"), C("r1", 0, 1), E("sendfail"), E("release-alloc")],
    "build-after-exit": [E("gate-alloc"), C("r1", 1), E("shutdown"), E("wait-exit"), E("release-alloc")],
    "connect-failure": [E("connfail"), C("r1", 1), C("r2", 1, 1)],
    "shutdown-with-queued": [C("r1", BIG), C("r1", BIG), C("r2", BIG, 1), E("shutdown")],
    "shutdown-while-sending-fail": [C("r1", BIG), C("r2", BIG), E("shutdown"), E("sendfail")],
    "duplicate-block-status": [C("r1", 1, 0, True), C("r2", 1, 0, True), E("sendok")],
    # a failed send whose scrub empties the first of several queued messages: the others must still leave in queued order
    "scrub-first-of-four": [C("r1", BIG), C("r1", BIG), C("r2", BIG), C("r2", BIG), C("r2", BIG), E("sendfail"), E("sendok"), E("sendok"), E("sendok")],
    "scrub-middle-of-five": [C("r1", BIG), C("r2", BIG), C("r1", BIG), C("r2", BIG), C("r2", BIG), C("r2", BIG), E("sendfail"), E("sendok"), E("sendok"), E("sendok"), E("sendok")],
    # an empty message at the head of the queue (its stream was closed after the memory was reserved) and a message too big to join it behind
    "empty-head-then-big": [C("r1", 1), E("gate-alloc"), C("r1", 1), E("sendfail"), E("release-alloc"), C("r2", 2 * BIG), E("sendok")],
    # the send fails and the sender cannot be opened again: the message in flight is still reported
    "send-fails-then-cannot-reopen": [C("r1", 1, 0, True), E("connfail"), E("sendfail")],
    "send-fails-then-cannot-reopen-queued": [C("r1", BIG), C("r2", BIG, 0, True), E("connfail"), E("sendfail")],
}


def tlc_scripts(seed, limit):
    res = tlc_must_pass(run_tlc("MsgQueue", "MsgQueueScripts.tla", "MQScripts.cfg", workers=1, timeout=3000), "MsgQueueScripts")
    seen, out = set(), []
    for x in res.printed():
        d = json.loads(x)
        k = json.dumps(d["script"])
        if k in seen:
            continue
        seen.add(k)
        sc = []
        for e in d["script"]:
            e = dict(e)
            if e["ev"] == "begin":
                e["blk"] = BIG if e["blk"] else 0
            e["fin"] = False
            sc.append(e)
        out.append(sc)
    rng = random.Random(seed)
    rng.shuffle(out)
    return out[:limit], len(out), res


def run_shards(cases, tmp, nshards=16):
    shards = [cases[i::nshards] for i in range(nshards)]
    def one(i):
        inp, outp = os.path.join(tmp, "in%d.ndjson" % i), os.path.join(tmp, "out%d.ndjson" % i)
        with open(inp, "w") as f:
            for c in shards[i]:
                f.write(json.dumps(c) + "\n")
        run_vh(["mq-run", "--in", inp, "--out", outp], env=GOENV, timeout=6000)
        return [l for l in open(outp).read().splitlines()]
    build_harness()
    with ThreadPoolExecutor(nshards) as ex:
        parts = list(ex.map(one, range(nshards)))
    return [l for p in parts for l in p]


KEY = {"C15": "c15", "C16": "c16", "C17": "c17"}


def pm_scripts():
    res = tlc_must_pass(run_tlc("PeerMgr", "PeerMgrScripts.tla", "PMScripts.cfg", workers=1, timeout=3000), "PeerMgrScripts")
    seen, out = set(), []
    for x in res.printed():
        d = json.loads(x)
        k = json.dumps(d["script"])
        if k not in seen:
            seen.add(k)
            out.append([{"ev": e["ev"], "q": e["q"], "r": "", "blk": 0, "ext": 0} for e in d["script"]])
    return out, res


PM_DIRECTED = {
    "successor-orphaned": [{"ev": "connected"}, {"ev": "disconnected"}, {"ev": "connected"}, {"ev": "exit", "q": 1}, {"ev": "send"}, {"ev": "disconnected"}],
    "reconnect-after-self-shutdown": [{"ev": "connected"}, {"ev": "connected"}, {"ev": "selfshutdown", "q": 1}, {"ev": "exit", "q": 1}, {"ev": "send"}, {"ev": "disconnected"}, {"ev": "disconnected"}],
    "send-then-connect-disconnect": [{"ev": "send"}, {"ev": "connected"}, {"ev": "disconnected"}],
    "double-connect": [{"ev": "connected"}, {"ev": "connected"}, {"ev": "send"}, {"ev": "disconnected"}, {"ev": "send"}, {"ev": "disconnected"}],
}


def run(pid, tier, seed, extra_cases=None, key=None):
    v = Verdict(pid, tier, seed, "model_checking")
    tmp = tempfile.mkdtemp(prefix="vmq-")
    try:
        r = tlc_must_pass(run_tlc("MsgQueue", "MsgQueue.tla", "MQDesign.cfg", workers=NCPU, timeout=6000), "MsgQueue design")
        states, trans = r.distinct, r.generated
        scripts, total, sres = tlc_scripts(seed, 1000 if tier == "quick" else 10**9)
        states += sres.distinct
        cases = [{"id": 0, "name": n, "script": s} for n, s in DIRECTED.items()] + [{"id": 0, "name": "tlc", "script": s} for s in scripts]
        if pid == "C17":
            r2 = tlc_must_pass(run_tlc("PeerMgr", "PeerMgr.tla", "PMDesign.cfg", workers=NCPU, timeout=3000), "PeerMgr design")
            states += r2.distinct
            trans += r2.generated
            pms, pres = pm_scripts()
            states += pres.distinct
            cases = [{"id": 0, "name": n, "script": [dict({"q": 0, "r": "", "blk": 0, "ext": 0}, **e) for e in s]} for n, s in PM_DIRECTED.items()] + \
                    [{"id": 0, "name": "pm-tlc", "script": s} for s in pms] + cases[:len(DIRECTED) + 300]
        # one block attached for several requests inside one queued message (the sender is busy with an earlier message)
        for n, sc in {"same-block-two-requests": [C("r0", 1), C("r1", 1), C("r2", 1), E("sendok"), E("sendok")],
                      "same-block-two-requests-fail": [C("r0", 1), C("r1", 1, 1), C("r2", 1), E("sendok"), E("sendfail")],
                      "same-block-three-times": [C("r0", 1), C("r1", 1), C("r2", 1), C("r1", 1), E("sendfail"), E("sendok")]}.items():
            cases.append({"id": 0, "name": n, "script": sc, "sameBlock": True})
        # every second script with two or more block-carrying calls sends one and the same block in all of them
        k = 0
        for c in cases:
            if c["name"] == "tlc" and sum(1 for e in c["script"] if e.get("ev") in ("call", "begin") and e.get("blk", 0) > 0) >= 2:
                k += 1
                if k % 2 == 0:
                    c["sameBlock"] = True
        for i, c in enumerate(cases):
            c["id"] = i + 1
        lines = run_shards(cases, tmp)
        judged = os.path.join(tmp, "all.ndjson")
        with open(judged, "w") as f:
            f.write("\n".join(lines) + "\n")
        ores = tlc_must_pass(run_tlc("MsgQueue", "MsgQueueOracle.tla", "MQOracle.cfg", workers=1, env={"VERIF_CASES": judged}, timeout=6000), "MsgQueueOracle")
        verdicts = {json.loads(x)["id"]: json.loads(x) for x in ores.printed()}
        if len(verdicts) != len(cases):
            raise Infra("oracle judged %d of %d" % (len(verdicts), len(cases)))
        byid = {json.loads(l)["case"]["id"]: json.loads(l) for l in lines}
        names = {c["id"]: c["name"] for c in cases}
        n_desync = 0
        for cid, x in sorted(verdicts.items()):
            rec = byid[cid]
            if x["desync"]:
                n_desync += 1
                if names[cid] in ("tlc", "pm-tlc"):
                    continue     # an enumerated script may need a branch of a Go select that the run did not take
                # a directed script is written to be followed: when the run leaves it, what was observed is judged all the same
            for prob in x[KEY[pid]]:
                sc = rec["case"]["script"]
                evs = [e["ev"] for e in sc]
                after_exit = names[cid] == "build-after-exit" or ("shutdown" in evs and any(e == "finish" for e in evs[evs.index("shutdown"):]))
                sig = prob + (":build-after-exit" if after_exit else "")
                v.violation(sig, "%s script %s: %s" % (names[cid], json.dumps(sc)[:500], json.dumps(rec["obs"])[:500]), rec)
        cov = {"states": states, "transitions": trans, "traces_validated_against_impl": len(cases),
               "samples": [cases[len(DIRECTED) + 5]["script"]], "exhaustive": tier != "quick",
               "tlc_scripts_total": total, "tlc_scripts_replayed": len(scripts), "directed_scripts": len(DIRECTED), "desync": n_desync,
               "rule": "TLC-enumerated environment scripts of MsgQueueScripts.tla (2 calls over 2 requests; block / extension / both / status-only; send ok / send failure / shutdown at every position, "
                       "reservation and rest of the call separated) plus directed scripts for every named deviation class; quick tier replays a seeded sample of the enumerated scripts"}
        return v.finish(cov, ["TLC", "verif hooks in messagequeue give the ground truth of attachments and queue lifetimes", "maxRetries = 1: one failed attempt is a failed message"])
    finally:
        shutil.rmtree(tmp, ignore_errors=True)
