"""C25: HeadOfLine.tla (the responder's shared threads: the manager's loop with its mailbox, W query
workers meeting the loop at start and finish of a task and waiting for the peer's memory before each
block, one sender per peer; peer A's sender never completes) checked by TLC for BServed (every request
of the healthy peer B ends) under weak fairness; the two ways the code as found breaks it are named
and shown by TLC; HeadOfLineScripts.tla enumerates the scenario scripts, each is run on a real responder
with A's link stalled and a watchdog on B's requests, HeadOfLineOracle.tla judges."""
import json, os, tempfile, shutil, random, subprocess
from concurrent.futures import ThreadPoolExecutor
from vlib import *

GOENV = {"GOLOG_LOG_LEVEL": "fatal"}
BASE = 'W = 2 Cap = 2 K = 3 AReq = {"a1", "a2"} BReq = {"b1", "b2"}'


def tlc_cfg(name, body, tla, **kw):
    p = os.path.join(SPECS, "HeadOfLine", name)
    with open(p, "w") as f:
        f.write(body)
    try:
        return run_tlc("HeadOfLine", tla, name, **kw)
    finally:
        os.remove(p)


def scripts(limit, maxenv):
    """-> (script -> finals of the model of the code as found, distinct states, transitions); cached: depends on the spec only"""
    def produce():
        res = tlc_must_pass(tlc_cfg("HolScripts_run_%d_%d.cfg" % (limit, maxenv),
                                    'CONSTANTS %s PeerLimit = %d Dev = {"LoopReservesMemory"} MaxEnv = %d\nINIT SInit\nNEXT SNext\nINVARIANT Emit\nCHECK_DEADLOCK FALSE\n' % (BASE, limit, maxenv),
                                    "HeadOfLineScripts.tla", workers=1, timeout=3000), "HeadOfLineScripts")
        s = {}
        for x in res.printed():
            d = json.loads(x)
            key = json.dumps(d["script"], sort_keys=True)
            s.setdefault(key, [])
            if d["final"] not in s[key]:
                s[key].append(d["final"])
        return {"scripts": s, "distinct": res.distinct, "generated": res.generated}
    return spec_cache("HeadOfLine", "scripts-%d-%d-%s" % (limit, maxenv, BASE), produce)


def warm():
    for limit in (1, 0):
        scripts(limit, 3)


def run(pid, tier, seed):
    v = Verdict(pid, tier, seed, "model_checking")
    tmp = tempfile.mkdtemp(prefix="vhol-")
    try:
        r = tlc_must_pass(run_tlc("HeadOfLine", "HeadOfLine.tla", "HolDesign.cfg" if tier == "quick" else "HolDesignBig.cfg", workers=NCPU, timeout=5000), "HeadOfLine design")
        states, trans = r.distinct, r.generated
        for cfg, what in (("HolCode.cfg", "LoopReservesMemory"), ("HolNoLimit.cfg", "no per-peer limit")):
            d = run_tlc("HeadOfLine", "HeadOfLine.tla", cfg, workers=NCPU, timeout=3000)
            if d.violation != "temporal":
                raise Infra("%s no longer breaks BServed in HeadOfLine.tla: the model has become vacuous\n%s" % (what, d.out[-1500:]))
        rng = random.Random(seed)
        cases = []
        n_all = 0
        for limit in (1, 0):
            sc = scripts(limit, 3)
            s = sc["scripts"]
            states += sc["distinct"]
            trans += sc["generated"]
            keys = sorted(s)
            n_all += len(keys)
            short = [k for k in keys if len(json.loads(k)) <= 3]
            rest = [k for k in keys if len(json.loads(k)) > 3]
            # scripts after which the model of the code as found leaves B waiting cost a full deadline each: a few only
            bad = [k for k in rest if any(f["unserved"] for f in s[k])]
            bads = set(bad)
            good = [k for k in rest if k not in bads]
            rng.shuffle(bad)
            rng.shuffle(good)
            # the core scenario of the property always: a worker of A waiting for memory, then any two further events, then the probe
            def is_core(k):
                sc = json.loads(k)
                return len(sc) == 4 and sc[0]["p"] == "A" and sc[0]["kind"] == "accept" and not sc[0]["ext"]
            core = [k for k in rest if is_core(k)] if limit == 1 else []
            cs = set(core)
            bad = [k for k in bad if k not in cs]
            good = [k for k in good if k not in cs]
            if tier == "quick":
                keys = short + core + bad[:12] + good[:200]
            else:
                keys = short + core + bad[:400] + good[:4000]
            for k in keys:
                cases.append({"id": len(cases) + 1, "limit": limit, "script": json.loads(k), "finals": s[k]})
        inp, outp = os.path.join(tmp, "scripts.ndjson"), os.path.join(tmp, "obs.ndjson")
        with open(inp, "w") as f:
            for c in cases:
                f.write(json.dumps(c) + "\n")
        run_vh(["hol-run", "--in", inp, "--out", outp], env=GOENV, timeout=7200)
        recs = [json.loads(l) for l in open(outp)]
        ores = tlc_must_pass(run_tlc("HeadOfLine", "HeadOfLineOracle.tla", "HolOracle.cfg", workers=1, env={"VERIF_CASES": outp}, timeout=7200), "HeadOfLineOracle")
        verdicts = [json.loads(x) for x in ores.printed()]
        if len(verdicts) != len(cases):
            raise Infra("oracle judged %d of %d scripts" % (len(verdicts), len(cases)))
        states += ores.distinct
        n_mismatch = n_desync = 0
        for x in verdicts:
            rec = recs[x["id"] - 1]
            if x["desync"]:
                n_desync += 1
                continue
            if not x["conforms"]:
                n_mismatch += 1
            for prob in x["c25"]:
                v.violation(prob, "per-peer limit %d, script %s: %s; model of the code as found: %s" % (
                    rec["case"]["limit"], json.dumps(rec["case"]["script"]), json.dumps(rec["obs"])[:500], json.dumps(rec["case"]["finals"])[:300]), rec)
        # ---- requestor half: HeadOfLineReq.tla (no shared thread waits for a peer's sender; a worker is held for as long as its
        # request waits for its peer), scenarios hook x number of requests to the stalled peer, one child process each
        rq = tlc_must_pass(run_tlc("HeadOfLine", "HeadOfLineReq.tla", "HolReq.cfg", workers=1, timeout=600), "HeadOfLineReq (requests to A below the worker count)")
        states += rq.distinct
        trans += rq.generated
        rqa = run_tlc("HeadOfLine", "HeadOfLineReq.tla", "HolReqAll.cfg", workers=1, timeout=600)
        if rqa.violation != "temporal":
            raise Infra("HeadOfLineReq.tla: requests to the stalled peer holding every worker no longer break BCompletes: the model has become vacuous")
        scen = []
        for x in rqa.printed():
            d = json.loads(x)
            if d not in scen:
                scen.append(d)
        exe = build_harness("verif")
        env = goenv()
        env["GOLOG_LOG_LEVEL"] = "fatal"

        def one(d):
            cp = subprocess.run([exe, "holreq-run", "--hook", d["hook"], "--na", str(d["na"]), "--w", str(d["w"])], capture_output=True, text=True, env=env, timeout=60)
            o = None
            for ln in cp.stdout.splitlines():
                if ln.startswith("{"):
                    o = json.loads(ln)
            if o is None:
                raise Infra("holreq-run failed: %s" % cp.stderr[-1500:])
            return {"case": d, "obs": o}
        with ThreadPoolExecutor(max_workers=4) as ex:
            rrecs = list(ex.map(one, scen))
        for rec in rrecs:
            d, o = rec["case"], rec["obs"]
            ok = o["bDone"] and o["bNodes"] == o["wantNodes"] and not o["bErrs"] and o["loopResponsive"]
            if ok:
                continue
            if not o["loopResponsive"]:
                sig = "requestor:manager-loop-blocked-by-stalled-peer"
            elif not d["completes"] and not o["bDone"]:
                sig = "requestor:resumed-request-waits-for-worker-held-by-stalled-peer"
            else:
                sig = "requestor:healthy-peer-exchange-not-completed"
            v.violation(sig, "requestor with %d workers, %d requests to the stalled peer, block hook of the healthy peer's request: %s: %s" % (d["w"], d["na"], d["hook"], json.dumps(o)[:400]), rec)
        cov = {"states": states, "transitions": trans, "traces_validated_against_impl": len(cases) + len(rrecs), "requestor_scenarios": len(rrecs),
               "samples": [cases[len(cases) // 2]["script"], cases[len(cases) // 3]["script"]], "exhaustive": False,
               "scripts_enumerated": n_all, "scripts_total": len(cases), "spec_mismatch": n_mismatch, "desync": n_desync,
               "rule": "behaviours of HeadOfLineScripts.tla (2 workers, allowance of 2 blocks, <= 3 messages / API calls from the stalled peer A and the healthy peer B, "
                       "per-peer limit 1 and none) projected on the environment script; each run on a real responder whose link to A is stalled, with a %s s watchdog on B" % 2}
        if not v.new and not v.known_hit and n_mismatch > len(cases) // 10:
            raise Infra("too many scripts on which model and code disagree (%d of %d): model or harness out of date" % (n_mismatch, len(cases)))
        return v.finish(cov, ["TLC", "verifnet raw peers", "events are sent when the responder's observable counters have been stable for 25 ms",
                              "'eventually' is a 2 s deadline on the real code", "requestor half: scenarios of HeadOfLineReq.tla (hook of the healthy peer's request x 0..3 requests to a peer whose link is stalled, 2 workers), one process each, 3 s deadline"])
    finally:
        shutil.rmtree(tmp, ignore_errors=True)
